#!/usr/bin/env python3
"""Regenerates /verif/MANIFEST.json from the table below (keeps it valid at all times)."""
import json
import os

HERE = os.path.dirname(os.path.dirname(os.path.abspath(__file__)))

TECH = "deterministic simulation with fault injection: "

CHECKS = {
    "C04": dict(
        level="exploration",
        text="For generated null-datamodel charts (parallel, history incl. nested, finals, internal/targetless/multi-target/eventless transitions, raise/send/cancel/log/if "
             "content, In() conditions, <donedata> on half of the nested finals; a third parallel-biased with long repeated-event histories) ChartToC::transform runs in-process; the emitted text is compiled as C with "
             "the sizing macros it emits (gcc -O0, ASan+UBSan) together with a host whose callbacks are backed by its own queues, and fed the external events in the order the "
             "interpreter dequeued them under the same timed history on the simulated clock. Compared record by record: events dequeued, log/raise/send/cancel content, done "
             "events, configurations, termination; any sanitizer report of the hosted machine is an out-of-bounds violation.",
        ref="DESIGN.md 6/C04",
        note="differential execution under a shared simulated history, not an interleaving search (the generated machine has no threads or timers); null datamodel, no invoke, "
             "fault-free plans; runs cut by the step cap are compared up to the cut; sanitizer build only (the unsanitized compile is not run).",
        technique=TECH + "shared simulated timed history replayed into the compiled transpiler output (sanitizers on), record-by-record trace equality against the interpreter"),
    "C06": dict(
        level="exploration",
        text="For generated promela-datamodel charts (single machine; parallel, history, finals, internal/targetless/multi-target/eventless transitions; raise/send/assign/if/"
             "log/cancel content; a scripted environment of delayed sends) ChartToPromela::transform runs in-process; the emitted model is executed by spin's seeded random "
             "simulation (spin -T -n<seed>, not its verifier); the order in which the model dequeued external events is extracted from its trace, and the interpreter is run "
             "on the same chart in the simulator with all delayed events held back and released in exactly that order. Compared record by record: events dequeued, states "
             "exited and entered, <log> values, configurations, termination.",
        ref="DESIGN.md 6/C06",
        note="differential execution; executions in which the model blocks on its bounded queues (7 internal / 13 external events) or loops are outside the fragment and "
             "skipped (about a third of the generated charts); transition identities are not compared; nested machines (invoke) are excluded as in the property.",
        technique=TECH + "seeded random simulation of the emitted model (spin -n<seed>) against the interpreter under a hold-and-release delayed-event queue that replays the model's external event order"),
    "C20": dict(
        level="exploration",
        text="The environment is the schedule: the same generated document (nested invoked machines with explicit ids, many event names) at the same URL is transpiled by two "
             "live Transformer instances in one process and in two processes (ASLR on / ASLR off, different seeded heap warm-up, heaps with a history of earlier work) for the "
             "C, Promela and VHDL back-ends: outputs must be byte-identical. The same document and history are interpreted (both engines) with cache files off, cold, warm, "
             "stale (other document cached under the same URL), truncated and with an unwritable cache directory: traces must be identical.",
        ref="DESIGN.md 6/C20",
        note="address-space layouts are sampled, not enumerated; ChartToC's process-wide machine index (USCXML_CURRENT_MACHINE_INDEX) is pinned by the harness.",
        technique=TECH + "seeded environment perturbation (heap layout, ASLR, second live instance, cache directory states) with byte-equality / trace-equality oracles"),
    "C14": dict(
        level="fault_enumeration",
        text="Original run of a generated chart under a timed history with a snapshot (serialize) at every step returning MACROSTEPPED or IDLE; for up to three sampled "
             "snapshot points per run the interpreter is killed there: a fresh interpreter deserializes the snapshot at the same simulated instant and executes the remaining "
             "history; its recorded behaviour (events processed, exits, transitions, content, logs, entries, configurations) must equal the original suffix; a snapshot of a "
             "different document must be rejected; both engines, three datamodels.",
        ref="DESIGN.md 6/C14",
        note="snapshot points are sampled per run; downtime is zero; invocations: a thread-free harness invoker in 35% of the lua/promela charts (replies reveal the arguments a re-created invocation was given) and a scenario that snapshots a session whose invoked SCXML child rests (known finding); the repeated stable-configuration notice of a resumed interpreter is not counted as a difference.",
        technique=TECH + "crash-point (kill + restore) injection at macrostep boundaries of simulated runs, resumed-trace == original-suffix oracle"),
    "C15": dict(
        level="fault_enumeration",
        text="NARROW CLAIM: only JSON that crosses simulated storage. Snapshot texts of interpreters whose external queue holds events with generated payloads are round-tripped "
             "(deserialize + serialize must be the identity, structurally) and damaged like stored bytes: truncation at every offset (short texts) or 200 seeded offsets, torn "
             "writes, single-bit flips, single-byte and number substitutions; every variant goes to deserialize() of a fresh interpreter in the ASan+UBSan build: it must "
             "return or fail with an exception, never crash or report.",
        ref="DESIGN.md 6/C15 and section 7",
        note="the property's general statement (all Data trees, all byte strings) is a pure function and is NOT decided by this check; only the snapshot path "
             "(Data::toJSON/fromJSON, Event <-> Data, engine state encoding) under storage faults is.",
        technique=TECH + "stored-byte fault injection (truncated / torn / flipped snapshot text) into deserialize() under sanitizers, plus fault-free round trip"),
    "C03": dict(
        level="exploration",
        text="One plan (generated chart with planted failing elements in 20% of the runs, or one self-contained W3C IRP document for null/lua/promela) is executed with the "
             "'large' and with the 'fast' engine (created through the Factory registration) in deterministic-history mode on the simulated clock; the per-session recorder logs "
             "(monitor notifications, <log> output, raised and sent events, step() results, configurations) must be equal.",
        ref="DESIGN.md 6/C03",
        note="cache files off; differential: a defect both engines share is invisible here (C01 covers the large engine against the reference model).",
        technique=TECH + "same simulated timed history under both micro-step engines, equality of the recorded per-session traces"),
    "C07": dict(
        level="fault_enumeration",
        text="(A) one really failing element (ill-formed / failing expression, send with unsupported type, malformed target or unknown invoke id, failing <if> condition, "
             "failing <data>, promela division by zero) planted at a sampled position of a sampled executable block of a generated chart; the run is refined step by step "
             "against the Appendix D model that is told which element fails: error event raised in order, rest of the block skipped, other blocks executed, interpreter "
             "keeps running, no exception leaves step(). (B) seeded XML mutations of generated charts (attribute/element damage, and insertion of valid constructs the generator "
             "does not produce: arrays and foreach, script, donedata, send content) loaded and stepped under crash containment. (F) a failing element "
             "inside <finalize> of an invoke whose child sends n events: finalize runs up to the failing element for every event, the event is still processed, one error "
             "event each, the interpreter answers afterwards. (T) transient faults: the real Lua/Promela datamodel behind a decorator that makes seeded datamodel calls "
             "issued from executable content fail (evalAsData, evalAsBool, assign, eval); every injected fault is recorded, and the run is refined against the model that is "
             "told which execution of which element (for <if>: which condition) failed. A third of all runs in the ASan+UBSan build.",
        ref="DESIGN.md 6/C07",
        note="fault positions are sampled (one per run in mode A, a seeded rate of 3-20% of the datamodel calls in mode T), not enumerated per chart; transient faults are "
             "injected inside executable content only (not into transition conditions, data initialisation or setEvent); failing transition conditions are not planted; donedata is not covered.",
        technique=TECH + "planted failing elements and XML mutations over simulated histories, refinement against a fault-aware reference model, crash containment with sanitizers"),
    "C13": dict(
        level="exploration",
        text="The monitor stream of every session of generated runs (both engines, deterministic histories and controller threads with cancel, planted failing elements in "
             "40% of the runs) is parsed by a push-down acceptor (balanced and well nested, exits then transitions then entries inside a micro-step bracket, nothing outside "
             "a bracket except event processing, invocation, stable-configuration and completion notices, one stable notice per macrostep) and cross-checked against "
             "configurations, <log> lines and dequeued events.",
        ref="DESIGN.md 6/C13",
        note="completion does not report exited states through before/afterExitingState; the grammar does not demand that (DESIGN Appendix A.1).",
        technique=TECH + "push-down acceptor and completeness cross-checks over the recorded monitor stream of simulated runs with planted failures and cancellation"),
    "C02": dict(
        level="exploration",
        text="Recommendation 3.11 legality predicate on getConfiguration() after every step() of generated charts (biased to history, parallel, targetless and "
             "multi-target transitions; only documents validate() accepts), for both micro-step engines, under deterministic histories and under controller threads "
             "issuing receive/cancel at seeded decision points; plus root entered exactly once and never exited before completion, and remembered history only names "
             "states that were active below a history's parent when it was exited.",
        ref="DESIGN.md 6/C02",
        note="the generated-C machine is not covered here; documents with a fatal validation issue are outside the quantifier and are skipped.",
        technique=TECH + "invariant (legal configuration, root once, history sanity) evaluated after every step of simulated runs over generated charts and histories, both engines"),
    "C01": dict(
        level="exploration",
        text="Generated charts (<= 10 states, parallel/history/initial/final, internal/targetless/multi-target/eventless transitions, raise/send/cancel/assign/log/if, "
             "early/late binding; null, lua and promela renderings of the same expression language) x histories of external events at seeded simulated times, interleaved "
             "with the chart's own immediate and delayed sends on the simulated clock; every microstep (exits, transitions, content, logs, raised and sent events, entries, "
             "configuration, event consumed) of the default engine is compared with an executable transcription of Recommendation Appendix D.",
        ref="DESIGN.md 6/C01",
        note="the program space is sampled by a generator, not enumerated; the reference model is trusted (transcription of Appendix D, no code shared with /repo); "
             "external event order is taken from the implementation (its admissibility is C08/C09); what the simulator adds over plain random testing is the timed history "
             "(delayed sends firing between harness events on simulated time) and exact replay.",
        technique=TECH + "simulated timed histories on generated charts, step-by-step refinement against an executable W3C Appendix D reference model"),
    "C08": dict(
        level="exploration",
        text="Seeded search over interleavings of 1-4 producer threads calling Interpreter::receive with the stepping thread (blocking and non-blocking step), "
             "spurious wake-ups, stalls and adversarial time advance; history oracles: exactly-once, per-sender order, real-time FIFO (linearizability of the queue "
             "for uniquely named events), internal-before-external, no enabled eventless transition at an external dequeue, internal FIFO; lost wake-ups are kernel verdicts.",
        ref="DESIGN.md 6/C08",
        note="data races as such are invisible under a serialising scheduler; only schedule-visible consequences at synchronisation points are explored.",
        technique=TECH + "seeded schedule search of producer tasks vs stepper over the real BasicEventQueue; FIFO-linearizability and macrostep-discipline oracles on the recorded history"),
    "C10": dict(
        level="exploration",
        text="API plans (step/receive/cancel/reset/destroy) from one thread in any order including before the first step, from a controller thread at arbitrary "
             "decision points of a running or blocked step(), destroy while stepping, reset concurrent with step, and a reset-vs-fresh differential; oracles: "
             "life-cycle automaton over step() results, onexit handlers once in reverse document order at completion, cancel leads to FINISHED, teardown bounded "
             "(kernel deadlock / stuck rule), reset == fresh, no crash.",
        ref="DESIGN.md 6/C10",
        note="purpose-built chart family (nested/parallel states, delayed sends, optional invoked child which may invoke a grandchild), both engines; libevent is the simevent model.",
        technique=TECH + "seeded schedule and API-call-point search with life-cycle automaton, bounded-teardown (deadlock/stuck) detection and reset-vs-fresh differential"),
    "C11": dict(
        level="exploration",
        text="Generated parent/child pairs (child finishing immediately / on a timer / on a parent event / never; parent leaving on done, timer, harness or child event, "
             "exit-and-re-entry in one macrostep; #_parent, #_<invokeid>, autoforward, finalize) with parent stepper, child thread and both timer threads under the "
             "seeded scheduler; oracles: invoke/uninvoke exactly once per entry/exit, done.invoke at most once and only after the child's final state, done eventually "
             "at quiescence, silence after cancel, routing and order, finalize before matching, no deadlock/crash.",
        ref="DESIGN.md 6/C11",
        note="one invoke element under test per parent chart (35% with a sibling invocation); invoker flags change only between simulator decision points; libevent is the simevent model.",
        technique=TECH + "seeded schedule search over parent, child and timer tasks with invoke-protocol oracles on the recorded histories of both sessions"),
    "C09": dict(
        level="exploration",
        text="Seeded search over interleavings of the real timer thread (BasicDelayedEventQueue on a simulated libevent) with the interpreter thread, "
             "with adversarial time advance, stalls and spurious wake-ups; oracles not-early, due-order, at-most-once, cancelled-never-delivered, "
             "nothing lost at quiescence (also across snapshots taken by serialize() while timers are pending, 12% of the plans; 10% of the runs drive the queue directly through the DelayedEventQueue interface from one or two caller tasks, including enqueues that replace a pending registration with the same UUID), plus kernel-detected deadlock / use-after-free / double-free / crash. Sampling, not proof.",
        ref="DESIGN.md 6/C09",
        note="libevent is a model of its timer subset (simevent); pre-emption only at synchronisation and simevent entry points; scheduler and clock are simulated.",
        technique=TECH + "seeded schedule search of timer task vs interpreter task over simulated libevent and clock; history oracles + kernel deadlock/UAF detection"),
}

NOT_APPLICABLE = [
    ("C05", "pure function of the document (structural tables); no schedule, clock, fault or history for a simulator to own"),
    ("C12", "pure string predicate nameMatch(descriptors, name); nothing to simulate"),
    ("C16", "value marshalling is a pure function of the value and the entry/exit path; the queues crossed are FIFO and fault-free"),
    ("C17", "expression evaluation is a pure function of expression and store (the division-by-zero crash is covered under C07)"),
    ("C18", "combinational next-state function over all configurations: enumeration/equivalence checking, not simulation; no VHDL simulator in the sandbox"),
    ("C19", "pure function of the document; simulated runs only use validate() as a filter"),
]

# properties that will be claimed once their check exists; until then they are listed as not (yet) claimed
PENDING = {
}


def main():
    checks = []
    for pid in sorted(CHECKS):
        c = CHECKS[pid]
        checks.append({
            "property_id": pid,
            "quick_cmd": "./check %s quick" % pid,
            "thorough_cmd": "./check %s thorough" % pid,
            "evidence_file": "/verif/evidence/%s.json" % pid,
            "replay_cmd_template": "./check replay {path}",
            "engine": "usim",
            "level_claimed": {"category": c["level"], "text": c["text"], "design_ref": c["ref"]},
            "level_note": c["note"],
            "technique": c["technique"],
        })
    na = [{"property_id": p, "reason": r} for (p, r) in NOT_APPLICABLE]
    for p in sorted(PENDING):
        if p not in CHECKS:
            na.append({"property_id": p, "reason": PENDING[p]})
    na.sort(key=lambda x: x["property_id"])
    m = {
        "version": 1,
        "setup_cmd": "make -C /verif -j16 plain san && make -C /verif selftest",
        "hooks": {
            "guard": "USCXML_VERIF",
            "enable": "no source hooks in /repo: the seams are link-time wrappers (-Wl,--wrap) for pthread/clock calls, a simulated libevent (sim/simevent.cpp) and the uscxml::uuidGen global; /verif/Makefile builds usim from /repo's working tree with -DUSCXML_VERIF",
            "baseline_off_cmd": "cmake --build /repo/_build -j16 && ctest --test-dir /repo/_build -j8 --timeout 900",
            "source_commits": [],
            "add_only": True,
        },
        "engines": [{"name": "usim", "path": "/verif/build/plain/usim", "serves_properties": sorted(CHECKS),
                     "kind_free_text": "deterministic simulator: baton scheduler over real threads, simulated clock and libevent, seeded fault injection; Python drivers generate plans and check recorded histories"}],
        "checks": checks,
        "not_applicable": na,
        "notes": "fix: commits in /repo are listed in known_findings.json under 'fixed'.",
    }
    with open(os.path.join(HERE, "MANIFEST.json"), "w") as f:
        json.dump(m, f, indent=1)
        f.write("\n")


if __name__ == "__main__":
    main()
