"""C13 — Monitor notifications are a well-nested, complete account of execution.

The recorder stream of generated charts (both engines, deterministic histories
and controller threads with cancel, invoked children via copyToInvokers) is
run through a push-down acceptor per session and cross-checked against the
independently known facts of the run (configurations, <log> lines, dequeued
events).  See DESIGN.md 6/C13.
"""
import json

import gen
import oracles
import workload
import usimlib
from tracelib import *

PROP = "C13"
LEVEL = "exploration"
FLAVOUR = "plain"
TIERS = {"quick": (40000, 170), "thorough": (2500000, 3300)}
RULE_TEXT = ("one run = one generated chart x one event history (engine large or fast; deterministic-history mode or stepper+controller with cancel under the "
             "seeded scheduler); the monitor stream of every session is parsed by the push-down acceptor and cross-checked; non-trivial = at least 3 micro-step "
             "brackets and 20 notifications were parsed; distinct = distinct (chart, ops, engine) content hashes")
ASSUMPTIONS = [
    "the grammar accepts before/afterUninvoking inside the exit phase of a micro-step (invocations are cancelled when their state is exited)",
    "states exited during completion are not reported through before/afterExitingState by the implementation; the grammar does not demand them (documented in DESIGN Appendix A.1)",
]


class Context(object):
    def __init__(self, prop, tier, opts):
        self.opts = opts


def gen_plan(seed, k):
    return workload.chart_and_history(seed, k, rec_micro=False, plant_p=0.4)


def oracle(plan, res):
    v = hard_failures(res, PROP, kinds=())
    info = {"nontrivial": False, "fatal": False, "records": 0, "brackets": 0, "ended_by_other": res.failed_hard()}
    for r in res.lines:
        if r[KIND] == "op>" and r[6] == "validate" and r[7] == "FATAL":
            info["fatal"] = True
            return v, info
    if res.failed_hard():
        # the stream of a run that ended in a deadlock / crash is cut off anywhere; nothing to demand
        return v, info
    gv, ginfo = oracles.c13_violations(res.lines)
    v += gv
    v += oracles.c13_completeness(plan["charts"]["main"], res.lines)
    if not v:
        v += oracles.c13_entry_account(plan["charts"]["main"], res.lines)
    info["records"] = ginfo["records"]
    info["brackets"] = ginfo["brackets"]
    info["nontrivial"] = ginfo["brackets"] >= 3 and ginfo["records"] >= 20
    return v, info


def evaluate(plan, usim):
    return oracle(plan, usim.run(plan))[0]


def run_one(ctx, usim, seed, k, acc):
    plan = gen_plan(seed, k)
    res = usim.run(plan)
    v, info = oracle(plan, res)
    end = res.end or {}
    workload.common_counts(acc, plan, end)
    acc.count("charts_rejected_by_validate", 1 if info["fatal"] else 0)
    acc.count("probe.notifications_parsed", info["records"])
    acc.count("probe.microstep_brackets", info["brackets"])
    if plan.get("planted"):
        acc.count("fault.planted_failing_" + str(plan["planted"]))
    acc.count("runs_ended_by_verdict_or_crash_of_another_property", 1 if info.get("ended_by_other") else 0)
    if info["nontrivial"]:
        acc.hashes.add(usimlib.hashlib.sha256((plan["charts"]["main"] + json.dumps(plan["actors"]) + plan["engine"]).encode()).hexdigest()[:16])
    if k % 100 == 7 and not res.failed_hard():
        res2 = usim.run(plan)
        acc.recheck_n += 1
        if res2.trace_hash != res.trace_hash:
            acc.recheck_mismatch += 1
    for (rule, detail) in v:
        acc.violations.append({"rule": rule, "detail": detail, "plan": plan, "k": k})
        break
    if len(acc.samples) < 1 and info["nontrivial"] and k < 64:
        acc.samples.append({"run": k, "seed": seed, "engine": plan["engine"], "mode": plan["mode"], "chart": plan["charts"]["main"],
                            "actors": plan["actors"], "notifications": info["records"]})


def classify(rule, detail, plan):
    return None
