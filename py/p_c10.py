"""C10 — Interpreter life-cycle is well defined and always terminates.

API plans (step / receive / cancel / reset / destroy) from one thread in any
order, from a controller thread at arbitrary decision points of a running or
blocked step(), and a reset-vs-fresh differential.  See DESIGN.md 6/C10.
"""
import json

from scx import El
import usimlib
from tracelib import *

PROP = "C10"
LEVEL = "exploration"
FLAVOUR = "plain"
TIERS = {"quick": (30000, 150), "thorough": (1200000, 3000)}
RULE_TEXT = ("one run = one chart of the life-cycle family (nested/parallel states with onexit handlers, delayed sends, optional invoked child, which may invoke a grandchild) "
             "driven by one API plan of kind api-order | concurrent | destroy-running | reset-fresh | reset-concurrent under one seeded schedule; "
             "non-trivial = a cancel/reset/destroy was issued while another task was inside or blocked in step(), or before the first step, "
             "or the plan is a reset-fresh pair; distinct = distinct (plan kind, scheduler decision-sequence hash)")
ASSUMPTIONS = [
    "teardown liveness is decided by the simulator's deadlock / stuck rules (a clock jump of more than 100 simulated days while an API call is in progress)",
    "libevent is the simevent model",
]

KINDS = ["api-order", "concurrent", "concurrent", "destroy-running", "reset-fresh", "reset-concurrent"]


class Context(object):
    def __init__(self, prop, tier, opts):
        self.opts = opts


def lifecycle_chart(rp, with_invoke=True):
    dm = rp.choice(["null", "null", "lua"])
    root = El("scxml", {"version": "1.0", "datamodel": dm, "initial": "a", "name": "lc"})

    def xlog(st):
        at = {"label": "x." + st.attrs["id"]}
        if dm == "lua":
            at["expr"] = "1"
        st.add(El("onexit", children=[El("log", at)]))

    if dm == "lua":
        root.add(El("datamodel", children=[El("data", {"id": "v", "expr": "0"})]))
    a = root.add(El("state", {"id": "a"}))
    oe = a.add(El("onentry"))
    if dm == "lua":
        oe.add(El("script", text="g = (g or 0) + 1"))
        oe.add(El("assign", {"location": "v", "expr": "v + 1"}))
        oe.add(El("log", {"label": "g", "expr": "g"}))
        oe.add(El("log", {"label": "v", "expr": "v"}))
    for i in range(rp.randint(0, 3)):
        oe.add(El("send", {"event": "t%d" % i, "delay": "%dms" % rp.choice([1, 5, 10, 50, 3600000])}))
    if rp.random() < 0.3:
        oe.add(El("raise", {"event": "int1"}))
    xlog(a)
    shape = rp.choice(["flat", "nested", "parallel"])
    if shape == "nested":
        a.attrs["initial"] = "a1"
        a1 = a.add(El("state", {"id": "a1", "initial": "a11"}))
        xlog(a1)
        a11 = a1.add(El("state", {"id": "a11"}))
        xlog(a11)
        a11.add(El("transition", {"event": "t0", "target": "a12"}))
        a12 = a1.add(El("state", {"id": "a12"}))
        xlog(a12)
    elif shape == "parallel":
        a.attrs["initial"] = "p"
        p = a.add(El("parallel", {"id": "p"}))
        xlog(p)
        for r in range(rp.randint(2, 3)):
            reg = p.add(El("state", {"id": "r%d" % r, "initial": "r%da" % r}))
            xlog(reg)
            ra = reg.add(El("state", {"id": "r%da" % r}))
            xlog(ra)
            ra.add(El("transition", {"event": "t%d" % r, "target": "r%db" % r}))
            rb = reg.add(El("state", {"id": "r%db" % r}))
            xlog(rb)
    if with_invoke and rp.random() < 0.4:
        child = El("scxml", {"version": "1.0", "datamodel": "null", "initial": "c", "name": "child"})
        c = child.add(El("state", {"id": "c"}))
        coe = c.add(El("onentry"))
        coe.add(El("send", {"event": "ct", "delay": "%dms" % rp.choice([2, 20, 3600000])}))
        if rp.random() < 0.5:
            coe.add(El("send", {"event": "fromchild", "target": "#_parent"}))
        c.add(El("onexit", children=[El("log", {"label": "x.child.c"})]))
        if rp.random() < 0.5:
            c.add(El("transition", {"event": "ct", "target": "cf"}))
        child.add(El("final", {"id": "cf"}))
        if rp.random() < 0.4:
            # the child has a running invocation of its own: ending the parent (cancel, leaving the state, reset,
            # destruction at any moment) has to end the whole chain
            grand = El("scxml", {"version": "1.0", "datamodel": "null", "initial": "g", "name": "grandchild"})
            g = grand.add(El("state", {"id": "g"}))
            goe = g.add(El("onentry"))
            goe.add(El("send", {"event": "gt", "delay": "%dms" % rp.choice([3, 30, 3600000])}))
            g.add(El("onexit", children=[El("log", {"label": "x.grandchild.g"})]))
            if rp.random() < 0.3:
                g.add(El("transition", {"event": "gt", "target": "gf"}))
            grand.add(El("final", {"id": "gf"}))
            ginv = El("invoke", {"type": "scxml", "id": "gkid"})
            ginv.add(El("content", children=[grand]))
            c.add(ginv)
        inv = El("invoke", {"type": "scxml", "id": "kid"})
        inv.add(El("content", children=[child]))
        a.add(inv)
    a.add(El("transition", {"event": "go", "target": "b"}))
    a.add(El("transition", {"event": "fin", "target": "f"}))
    b = root.add(El("state", {"id": "b"}))
    xlog(b)
    boe = b.add(El("onentry"))
    boe.add(El("send", {"event": "tb", "delay": "%dms" % rp.choice([1, 7, 100])}))
    b.add(El("transition", {"event": "back", "target": "a"}))
    b.add(El("transition", {"event": "fin", "target": "f"}))
    root.add(El("final", {"id": "f"}))
    return root


def rand_sched(rs, det=False):
    if det:
        return {"seed": rs.getrandbits(31), "policy": "nonpreempt"}
    return {"seed": rs.getrandbits(31), "policy": rs.choice(["random", "random", "sticky", "pct"]),
            "sticky_p": rs.choice([0.5, 0.8, 0.95]), "pct_d": rs.randint(1, 4), "pct_horizon": rs.choice([60, 200, 600]),
            "time_adv_p": rs.choice([0, 0.02, 0.1]), "spurious_p": rs.choice([0, 0, 0.01]),
            "stall_p": rs.choice([0, 0, 0.02]), "stall_len": rs.choice([5, 30]), "max_decisions": 200000}


EVENTS = ["go", "back", "fin", "nomatch", "t0", "go", "back"]


def gen_plan(seed, k):
    rp = usimlib.substream(seed, "plan")
    rs = usimlib.substream(seed, "sched")
    kind = rp.choice(KINDS)
    root = lifecycle_chart(rp, with_invoke=(kind != "reset-fresh"))
    engine = rp.choice(["default", "default", "large", "fast"])
    create = {"op": "create", "i": 0, "chart": "main", "engine": engine}
    actors = {}
    det = False
    if kind == "api-order":
        ops = [create]
        n = rp.randint(1, 12)
        alive = True
        for _ in range(n):
            o = rp.choice(["step", "step", "step", "recv", "recv", "cancel", "reset", "destroy", "create", "sleep"])
            if o == "step":
                ops.append({"op": "step", "i": 0, "block": rp.choice([0, 0, 3, 20])})
            elif o == "recv":
                ops.append({"op": "recv", "i": 0, "name": rp.choice(EVENTS)})
            elif o == "sleep":
                ops.append({"op": "sleep", "ms": rp.choice([1, 5, 10, 60])})
            elif o == "create":
                ops.append(dict(create))
            else:
                ops.append({"op": o, "i": 0})
        # always terminate: cancel, then step to FINISHED
        ops.append({"op": "step", "i": 0, "block": 0})
        ops.append({"op": "cancel", "i": 0})
        ops.append({"op": "run", "i": 0, "block": rp.choice([0, 5, -1]), "until": ["FINISHED"], "max": 300})
        ops.append({"op": "step", "i": 0, "block": 0})
        actors["main"] = ops
    elif kind == "concurrent":
        block = rp.choice([-1, -1, 50, 3])
        actors["main"] = [create, {"op": "spawn", "actor": "stepper"}, {"op": "spawn", "actor": "ctl"}]
        actors["stepper"] = [{"op": "run", "i": 0, "block": block, "until": ["FINISHED"], "max": 3000}]
        ctl = []
        for _ in range(rp.randint(0, 5)):
            o = rp.choice(["recv", "recv", "sleep", "yield"])
            if o == "recv":
                ctl.append({"op": "recv", "i": 0, "name": rp.choice(EVENTS)})
            elif o == "sleep":
                ctl.append({"op": "sleep", "ms": rp.choice([1, 4, 10, 11, 60])})
            else:
                ctl.append({"op": "yield"})
        if rp.random() < 0.3:
            ctl.insert(0, {"op": "wait", "flag": "never"} if False else {"op": "yield"})
        ctl.append({"op": "cancel", "i": 0})
        if rp.random() < 0.2:
            ctl.append({"op": "cancel", "i": 0})
        actors["ctl"] = ctl
    elif kind == "destroy-running":
        actors["main"] = [create, {"op": "spawn", "actor": "stepper"}, {"op": "spawn", "actor": "ctl"}]
        actors["stepper"] = [{"op": "run", "i": 0, "block": rp.choice([1, 5, 30]), "until": ["FINISHED"], "max": rp.randint(1, 40)}]
        ctl = []
        for _ in range(rp.randint(0, 3)):
            ctl.append(rp.choice([{"op": "recv", "i": 0, "name": rp.choice(EVENTS)}, {"op": "sleep", "ms": rp.choice([1, 5, 12])}, {"op": "yield"}]))
        ctl.append({"op": "destroy", "i": 0})
        actors["ctl"] = ctl
    elif kind == "reset-fresh":
        det = True
        prefix = []
        for _ in range(rp.randint(1, 6)):
            # (a cancel() of the run that is then discarded by reset() must not reach the next run)
            o = rp.choice(["run", "recv", "sleep", "run", "recv", "sleep", "cancel"])
            if o == "cancel":
                prefix.append({"op": "cancel", "i": 0})
            elif o == "run":
                prefix.append({"op": "run", "i": 0, "block": 0, "until": ["IDLE"], "max": 60})
            elif o == "recv":
                prefix.append({"op": "recv", "i": 0, "name": rp.choice(EVENTS)})
            else:
                prefix.append({"op": "sleep", "ms": rp.choice([1, 5, 10])})
        cont = []
        for _ in range(rp.randint(1, 6)):
            o = rp.choice(["run", "recv", "sleep"])
            if o == "run":
                cont.append({"op": "run", "i": "X", "block": 0, "until": ["IDLE"], "max": 60})
            elif o == "recv":
                cont.append({"op": "recv", "i": "X", "name": rp.choice(EVENTS)})
            else:
                cont.append({"op": "sleep", "ms": rp.choice([1, 5, 10, 60])})
        cont.append({"op": "run", "i": "X", "block": 0, "until": ["IDLE"], "max": 60})

        def inst(ops, i):
            return [dict(o, i=i) if "i" in o else dict(o) for o in ops]
        ops = [create] + prefix + [{"op": "reset", "i": 0}, {"op": "mark", "name": "cont"}] + inst(cont, 0)
        ops += [{"op": "mark", "name": "end"}, {"op": "cancel", "i": 0}, {"op": "run", "i": 0, "block": 0, "until": ["FINISHED"], "max": 100}]
        actors["main"] = ops
    else:  # reset-concurrent
        actors["main"] = [create, {"op": "spawn", "actor": "stepper"}, {"op": "spawn", "actor": "ctl"}]
        actors["stepper"] = [{"op": "run", "i": 0, "block": rp.choice([1, 5, 30]), "until": ["FINISHED"], "max": rp.randint(5, 60)}]
        ctl = []
        for _ in range(rp.randint(0, 3)):
            ctl.append(rp.choice([{"op": "recv", "i": 0, "name": rp.choice(EVENTS)}, {"op": "sleep", "ms": rp.choice([1, 5, 12])}, {"op": "yield"}]))
        ctl.append({"op": "reset", "i": 0})
        ctl.append({"op": "sleep", "ms": 5})
        ctl.append({"op": "cancel", "i": 0})
        actors["ctl"] = ctl
    plan = {"id": k, "seed": seed, "entropy_seed": seed & 0x7fffffff, "kind": kind, "sched": rand_sched(rs, det),
            "charts": {"main": root.xml()}, "actors": actors}
    return plan


# ---------------------------------------------------------------------------------
# oracle
# ---------------------------------------------------------------------------------

def top_finals(xml):
    import xml.etree.ElementTree as ET
    ns = "{http://www.w3.org/2005/07/scxml}"
    r = ET.fromstring(xml)
    return set(c.get("id") for c in r if c.tag == ns + "final")


def onexit_logged(xml):
    import xml.etree.ElementTree as ET
    ns = "{http://www.w3.org/2005/07/scxml}"
    r = ET.fromstring(xml)
    out = set()
    for e in r.iter():
        if e.get("id"):
            for ox in e.findall(ns + "onexit"):
                for lg in ox.findall(ns + "log"):
                    if lg.get("label") == "x." + e.get("id"):
                        out.add(e.get("id"))
    return out


def doc_order(xml):
    import xml.etree.ElementTree as ET
    ns = "{http://www.w3.org/2005/07/scxml}"
    r = ET.fromstring(xml)
    order = {}
    n = [0]

    def walk(e, inside_content):
        for c in e:
            if c.tag == ns + "content":
                continue
            if c.tag in (ns + "state", ns + "parallel", ns + "final") and c.get("id"):
                order[c.get("id")] = n[0]
                n[0] += 1
            walk(c, inside_content)
    walk(r, False)
    return order


def lifecycle_check(results, finals):
    """results: list of (result, cfg) for one interpreter incarnation (between create/reset)."""
    errs = []
    if not results:
        return errs
    first = results[0][0]
    if first not in ("INITIALIZED", "EXC"):
        errs.append("first step() after creation/reset returned %s, expected INITIALIZED" % first)
    finished = False
    cancelled_at = None
    in_final_at = None
    for idx, (r, cfg) in enumerate(results[1:], 1):
        if r == "EXC":
            continue
        if r in ("INSTANTIATED", "UNDEF", "INITIALIZED", "?"):
            errs.append("step() #%d returned %s" % (idx, r))
        if finished and r != "FINISHED":
            errs.append("step() #%d returned %s after FINISHED (finished is absorbing)" % (idx, r))
        if cancelled_at is not None and idx == cancelled_at + 1 and r != "FINISHED":
            errs.append("step() after CANCELLED returned %s, expected FINISHED" % r)
        if in_final_at is not None and idx == in_final_at + 1 and r != "FINISHED":
            errs.append("step() after entering a top-level final state returned %s, expected FINISHED" % r)
        if r == "FINISHED":
            finished = True
        if r == "CANCELLED":
            cancelled_at = idx
        ids = set(cfg.split())
        if in_final_at is None and ids & finals and r != "FINISHED":
            in_final_at = idx
    return errs


def oracle(plan, res):
    v = hard_failures(res, PROP)
    info = {"nontrivial": False}
    kind = plan.get("kind", "")
    lines = res.lines
    finals = top_finals(plan["charts"]["main"])
    order = doc_order(plan["charts"]["main"])
    logged = onexit_logged(plan["charts"]["main"])
    # per interpreter: incarnations split at create / reset
    inc = {}
    cur = {}
    ops_open = {}
    cancel_returned = {}
    steps_after_cancel = {}
    finished = {}
    in_step = {}       # interp -> task currently inside step
    for r in lines:
        kd = r[KIND]
        if kd == "op<":
            name, i = r[6], "i%d" % r[7]
            if name in ("cancel", "reset", "destroy") and (in_step.get(i) or not cur.get(i)):
                info["nontrivial"] = True
            if name in ("step", "run"):
                in_step[i] = True
        elif kd == "op>":
            name = r[6]
            # find matching op< : same task & index; we only need interp for a few ops
            pass
        if kd == "st":
            i = r[SESS]
            cur.setdefault(i, []).append((r[5], r[6]))
            if r[5] == "FINISHED":
                finished[i] = True
            if i in cancel_returned:
                steps_after_cancel[i] = steps_after_cancel.get(i, 0) + 1
    # simpler second pass with explicit op tracking
    cur = {}
    incs = {}
    opstack = {}
    for r in lines:
        kd = r[KIND]
        if kd == "op<":
            opstack[(r[TASK], r[5])] = (r[6], "i%d" % r[7])
        elif kd == "op>":
            key = (r[TASK], r[5])
            if key in opstack:
                name, i = opstack.pop(key)
                if name in ("create", "reset"):
                    incs.setdefault(i, []).append([])
                if name == "cancel":
                    cancel_returned[i] = r[SEQ]
        elif kd == "st":
            i = r[SESS]
            if i not in incs:
                incs[i] = [[]]
            incs[i][-1].append((r[5], r[6]))
    if kind != "reset-concurrent":
        for i, lst in incs.items():
            for results in lst:
                for e in lifecycle_check(results, finals):
                    v.append(("C10.lifecycle", "%s: %s; results=%s" % (i, e, [x[0] for x in results][-12:])))
                    break
    # completion: onexit handlers once, reverse document order, between bcp and acp
    if kind != "reset-concurrent":
        last_cfg = {}
        in_completion = {}
        logs = {}
        for r in lines:
            kd = r[KIND]
            s = r[SESS]
            if kd == "st" and r[6]:
                last_cfg[s] = r[6]
            elif kd == "bcp":
                in_completion[s] = True
                logs[s] = []
            elif kd == "acp":
                if in_completion.get(s) and s in last_cfg and s.startswith("i"):
                    want = [x for x in last_cfg[s].split() if x in order]
                    want.sort(key=lambda x: -order[x])
                    got = logs.get(s, [])
                    # only states that carry an onexit log in this family: all non-final states
                    want = [x for x in want if x in logged]
                    if got != want:
                        v.append(("C10.onexit-once", "%s: completion ran onexit handlers %s, expected %s (active states in reverse document order)" % (s, got, want)))
                in_completion[s] = False
            elif kd == "log" and r[5] == 4:
                # the logger tag of interpreter iN is "iN"; children log under "iN+"
                if in_completion.get(s) and r[6].startswith("x."):
                    logs[s].append(r[6][2:].split(":")[0])
    # an invoked session that ran is finalised like any other: when its invoker stops it (the parent left the invoking
    # state, was cancelled, finished or was destroyed) it still makes its finalising step - remaining onexit handlers,
    # one completion bracket.  By the end of a run every interpreter has been destroyed.
    if not res.failed_hard() and res.end is not None:
        ran = {}
        for r in lines:
            s = r[SESS]
            if isinstance(s, str) and s.startswith("c"):
                kd = r[KIND]
                if kd == "bms":
                    ran.setdefault(s, [0, 0])
                elif kd == "bcp" and s in ran:
                    ran[s][0] += 1
                elif kd == "acp" and s in ran:
                    ran[s][1] += 1
        for s, (nb, na) in sorted(ran.items()):
            if nb != 1 or na != 1:
                v.append(("C10.child-finalised", "invoked session %s ran at least one microstep but had %d completion brackets opened and %d closed by the end of the run (expected exactly one)" % (s, nb, na)))
                break
    # cancel leads to finished
    if kind in ("api-order", "concurrent") and not res.failed_hard():
        for i, seq in cancel_returned.items():
            if i not in incs:
                continue
            # was there a reset/create after the cancel?  then the obligation is void
            later_reset = False
            opst = {}
            for r in lines:
                if r[KIND] == "op<" and r[SEQ] > seq and r[6] in ("reset", "create", "destroy") and "i%d" % r[7] == i:
                    later_reset = True
            if later_reset:
                continue
            sts = [r for r in lines if r[KIND] == "st" and r[SESS] == i and r[SEQ] > seq]
            if len(sts) >= 250 and not any(r[5] == "FINISHED" for r in sts):
                v.append(("C10.cancel-finishes", "%s: %d steps after cancel() returned and still not FINISHED" % (i, len(sts))))
            # a never-stepped interpreter cannot be blamed
    # reset == fresh: see fresh_plan() / compare_reset_fresh()
    if kind == "reset-fresh":
        info["nontrivial"] = True
    return v, info


def fresh_plan(plan):
    """The same continuation on a freshly created interpreter (second run of a reset-fresh pair)."""
    ops = plan["actors"]["main"]
    idx = None
    for n, o in enumerate(ops):
        if o.get("op") == "mark" and o.get("name") == "cont":
            idx = n
    if idx is None or idx == 0 or ops[idx - 1].get("op") != "reset" or not ops or ops[0].get("op") != "create":
        return None
    q = dict(plan)
    q["actors"] = {"main": [ops[0]] + ops[idx:]}
    return q


def _norm_segment(lines):
    out = []
    on = False
    for r in lines:
        kd = r[KIND]
        if kd == "mark":
            on = (r[5] == "cont")
            continue
        if on and r[SESS] == "i0" and kd in ("st", "ev", "bes", "bxs", "btt", "bxc", "stb", "bcp", "acp", "log"):
            f = r[5:]
            if kd == "ev":
                f = [r[5].get("name"), r[5].get("type")]
            out.append((kd, json.dumps(f)))
    return out


def compare_reset_fresh(plan, res, usim):
    q = fresh_plan(plan)
    if q is None or res.failed_hard():
        return []
    res2 = usim.run(q)
    if res2.failed_hard():
        return []
    a = _norm_segment(res.lines)
    b = _norm_segment(res2.lines)

    def strip_g(x):
        return [r for r in x if not (r[0] == "log" and '"g: ' in r[1])]
    for (x, y) in ((strip_g(a), strip_g(b)), (a, b)):
        if x != y:
            d = 0
            while d < min(len(x), len(y)) and x[d] == y[d]:
                d += 1
            return [("C10.reset-fresh", "after reset() the interpreter diverges from a freshly created one under the same continuation, at record %d: reset=%s fresh=%s" % (
                d, x[d] if d < len(x) else None, y[d] if d < len(y) else None))]
    return []


def evaluate(plan, usim):
    res = usim.run(plan)
    v = oracle(plan, res)[0]
    if plan.get("kind") == "reset-fresh":
        v += compare_reset_fresh(plan, res, usim)
    return v


def run_one(ctx, usim, seed, k, acc):
    plan = gen_plan(seed, k)
    res = usim.run(plan)
    v, info = oracle(plan, res)
    if plan["kind"] == "reset-fresh":
        v += compare_reset_fresh(plan, res, usim)
    end = res.end or {}
    acc.sim_ms += end.get("sim_ms", 0)
    acc.decisions += end.get("decisions", 0)
    acc.count("pol." + plan["sched"]["policy"])
    acc.count("kind." + plan["kind"])
    acc.count("fault.adversarial_time_advance", end.get("adv_time", 0))
    acc.count("fault.spurious_wakeup", end.get("spurious", 0))
    acc.count("fault.task_stall", end.get("stalls", 0))
    acc.count("fault.preemption_switches", end.get("switches", 0))
    acc.count("fault.api_call_at_arbitrary_instant", 1 if info["nontrivial"] else 0)
    acc.count("probe.loopbreak_before_loop_entered", end.get("ev_break_forgotten", 0))
    acc.count("probe.event_del_waited_for_running_callback", end.get("ev_del_blocked", 0))
    acc.count("probe.exceptions_out_of_api", end.get("exceptions", 0))
    if info["nontrivial"] and end.get("sched_hash"):
        acc.hashes.add(plan["kind"] + end["sched_hash"])
    if k % 100 == 7 and not res.failed_hard():
        res2 = usim.run(plan)
        acc.recheck_n += 1
        if res2.trace_hash != res.trace_hash:
            acc.recheck_mismatch += 1
    for (rule, detail) in v:
        acc.violations.append({"rule": rule, "detail": detail, "plan": plan, "k": k})
        break
    if len(acc.samples) < 1 and info["nontrivial"] and k < 64:
        acc.samples.append({"run": k, "seed": seed, "kind": plan["kind"], "chart": plan["charts"]["main"], "actors": plan["actors"],
                            "sched": plan["sched"], "trace_tail": tail(res.lines, 12)})


def classify(rule, detail, plan):
    import re
    if rule.startswith("C10.deadlock[") or rule.startswith("C10.stuck[") or rule.startswith("C10.idle-forever["):
        m = re.search(r"task (\d+) '[^']*' blocked on event_(?:del|free)", detail)
        if m and re.search(r"blocked on mutex held by task %s " % m.group(1), detail):
            return "C10-teardown-or-cancel-blocks-in-event_del-while-callback-waits-for-queue-mutex"
    if rule == "C10.reset-fresh" and re.search(r"reset=\('log', '\[4, \"g: \d+\\\\n\"\]'\) fresh=\('log', '\[4, \"g: \d+\\\\n\"\]'\)", detail):
        return "C10-reset-keeps-datamodel-globals"
    return None
