"""C20 — Transformation and interpretation are deterministic functions of their input.

The "schedule" of this property is the environment.  The same document at the
same URL is transpiled (C, Promela, VHDL back-ends) by two Transformer
instances alive at once in one process, after seeded heap warm-up patterns, in
a process with ASLR and in one without; the outputs must be byte-identical.
The same document under the same history is interpreted (both engines) with
cache files off, with a cold, a warm, a stale (other document, same URL), a
truncated and an unwritable cache directory; the traces must be identical.
See DESIGN.md 6/C20.
"""
import json
import os
import shutil

import gen
import p_c01
import usimlib
from scx import El
from tracelib import *

PROP = "C20"
LEVEL = "exploration"
FLAVOUR = "plain"
TIERS = {"quick": (240, 170), "thorough": (12000, 3300)}
RULE_TEXT = ("one run = one generated document (promela or null datamodel, up to 3 nested invoked machines with explicit ids, many event names and string literals, 30% of the sends with eventexpr or without event name) "
             "transpiled by 2 live instances x 2 processes (ASLR on / off, different seeded heap warm-up) x 3 back-ends, plus interpretation of the document under one "
             "history with cache files off / cold / warm / stale / truncated / unwritable; non-trivial = at least two back-ends produced output and the interpretation "
             "processed at least one event; distinct = distinct document hashes among non-trivial runs")
ASSUMPTIONS = [
    "address-space layouts are sampled by ASLR on/off, two live instances and seeded heap warm-up; not all layouts",
    "every invoke carries an explicit id (the property's precondition)",
]
SCRATCH = os.path.join(usimlib.BUILD, "scratch")


class Context(object):
    def __init__(self, prop, tier, opts):
        self.opts = opts
        self.noaslr = None

    def usim_noaslr(self):
        if self.noaslr is None:
            self.noaslr = usimlib.Usim("plain", wrapper=["setarch", "x86_64", "-R"])
        return self.noaslr


def gen_doc(rp):
    # the transformers' shared analysis is far from linear in the number of transitions (a 12 KB chart takes
    # minutes): keep documents moderate so that a run stays a matter of seconds
    for _ in range(6):
        root = gen_doc1(rp)
        if len(root.xml()) < 9000:
            break
    return root


def gen_doc1(rp):
    dm = rp.choice(["promela", "promela", "null"])
    root = p_c01.gen_chart(rp, dm, {"history": rp.random() < 0.5, "par_p": 0.15})
    # sends and raises whose event the back-ends cannot know statically: eventexpr, or no event at all
    for e in list(root.walk()):
        if e.tag == "send" and "event" in e.attrs and rp.random() < 0.3:
            name = e.attrs.pop("event")
            if rp.random() < 0.6:
                has_v0 = any(d.tag == "data" and d.attrs.get("id") == "v0" for d in root.walk())
                e.attrs["eventexpr"] = "'%s'" % name if dm == "null" else rp.choice(["'%s'" % name, "v0" if has_v0 else "2", "1"])
    states = [e for e in root.walk() if e.tag == "state"]
    for n in range(rp.randint(0, 3)):
        if not states:
            break
        if n > 0 and rp.random() < 0.35:
            # the same machine invoked from a second place (byte-identical nested documents)
            child = gen.from_xml(prev.xml())
        else:
            child = p_c01.gen_chart(rp, dm, {"history": False, "par_p": 0.0, "hist_p": 0.0}, max_states=4)
            child.attrs["name"] = "kid%d" % n
        prev = child
        inv = El("invoke", {"type": "scxml", "id": "inv%d" % n})
        inv.add(El("content", children=[child]))
        rp.choice(states).add(inv)
    return root


def gen_plan(seed, k):
    rp = usimlib.substream(seed, "plan")
    root = gen_doc(rp)
    ops = [{"op": "heapwarm", "seed": rp.getrandbits(30), "n": rp.choice([0, 50, 500, 3000])},
           {"op": "create", "i": 0, "chart": "main", "monitor": False, "rec_queues": False},
           {"op": "heapwarm", "seed": rp.getrandbits(30), "n": rp.choice([0, 10, 200])},
           {"op": "create", "i": 1, "chart": "main", "monitor": False, "rec_queues": False},
           {"op": "validate", "i": 0}]
    for kind in ("c", "pml", "vhdl"):
        ops += [{"op": "transform", "i": 0, "kind": kind}, {"op": "transform", "i": 1, "kind": kind}]
    hist = p_c01.history_ops(rp)
    return {"id": k, "seed": seed, "entropy_seed": seed & 0x7fffffff,
            "sched": {"seed": seed & 0x7fffffff, "policy": "nonpreempt", "max_decisions": 400000},
            "env": {"USCXML_NOCACHE_FILES": "1"},
            "charts": {"main": root.xml()}, "actors": {"main": ops}, "history": hist,
            "engine": rp.choice(["large", "fast"])}


def xforms(res):
    out = {}
    for r in res.lines:
        if r[KIND] == "xform":
            out[(r[SESS], r[5])] = (r[6], r[7])
    excs = [(r[5], r[7]) for r in res.lines if r[KIND] == "exc"]
    return out, excs


def with_warm(plan, seed2):
    q = json.loads(json.dumps(plan))
    for o in q["actors"]["main"]:
        if o["op"] == "heapwarm":
            o["seed"] = (o["seed"] * 31 + seed2) & 0x3fffffff
            o["n"] = o["n"] * 2 + 7
    return q


def transform_check(plan, usim_a, usim_b):
    v = []
    ra = usim_a.run(plan)
    rb = usim_b.run(with_warm(plan, 12345))
    info = {"kinds": 0, "ended": False}
    if ra.failed_hard() or rb.failed_hard():
        info["ended"] = True
        return v, info
    xa, ea = xforms(ra)
    xb, eb = xforms(rb)
    info["kinds"] = len(set(kd for (s, kd) in xa))
    for kind in ("c", "pml", "vhdl"):
        a0, a1 = xa.get(("i0", kind)), xa.get(("i1", kind))
        b0 = xb.get(("i0", kind))
        if a0 and a1 and a0 != a1:
            v.append(("C20.transform-bytes", "%s back-end: two Transformer instances for the same document in one process produced different output (md5 %s vs %s, %d vs %d bytes)" % (kind, a0[1], a1[1], a0[0], a1[0])))
        elif a0 and b0 and a0 != b0:
            v.append(("C20.transform-bytes", "%s back-end: the same document produced different output in two processes (ASLR on: md5 %s, ASLR off + other heap history: md5 %s)" % (kind, a0[1], b0[1])))
        elif bool(a0) != bool(b0):
            v.append(("C20.transform-bytes", "%s back-end produced output in one process only (exceptions: %s / %s)" % (kind, ea[:2], eb[:2])))
    if v:
        # capture what differs (same processes, full texts)
        import difflib
        q = json.loads(json.dumps(plan))
        for o in q["actors"]["main"]:
            if o["op"] == "transform":
                o["full"] = True
        fa, fb = usim_a.run(q), usim_b.run(with_warm(q, 12345))
        texts = {}
        for tag, r in (("A", fa), ("B", fb)):
            for x in r.lines:
                if x[KIND] == "xform":
                    texts[(tag, x[SESS], x[5])] = x[8]
        extra = ""
        for kind in ("c", "pml", "vhdl"):
            ts = [(k, t) for k, t in sorted(texts.items()) if k[2] == kind]
            for i in range(1, len(ts)):
                if ts[i][1] != ts[0][1]:
                    d = list(difflib.unified_diff(ts[0][1].splitlines(), ts[i][1].splitlines(), lineterm="", n=0))[:12]
                    extra = "\n%s vs %s:\n%s" % (ts[0][0], ts[i][0], "\n".join(x[:200] for x in d))
                    break
            if extra:
                break
        v = [(r_, d_ + (extra or "\n(the difference did not show again when the texts were captured)")) for (r_, d_) in v]
    return v, info


KEEP = ("ev", "bms", "ams", "bxs", "bes", "btt", "bxc", "stb", "bcp", "acp", "log", "st", "biv", "aiv", "bun", "aun", "exc")


def norm_trace(res):
    out = {}
    for r in res.lines:
        if r[KIND] in KEEP:
            f = r[5:]
            if r[KIND] == "ev":
                f = [r[5].get("name"), r[5].get("type")]
            out.setdefault(r[SESS].rstrip("+"), []).append((r[KIND], json.dumps(f)))
    return out


def interp_plan(plan, env):
    q = dict(plan)
    q["actors"] = {"main": [{"op": "create", "i": 0, "chart": "main", "engine": plan["engine"], "base": "/verif/sim/c20doc.scxml"}] + plan["history"]}
    q["env"] = env
    return q


def other_doc_plan(plan, env):
    rp = usimlib.substream(plan["seed"], "otherdoc")
    other = gen_doc(rp)
    q = dict(plan)
    q["charts"] = {"main": other.xml()}
    q["actors"] = {"main": [{"op": "create", "i": 0, "chart": "main", "engine": plan["engine"], "base": "/verif/sim/c20doc.scxml"},
                            {"op": "run", "i": 0, "block": 0, "until": ["IDLE"], "max": 60}]}
    q["env"] = env
    return q


def cache_check(plan, usim, tag):
    """interpretation with cache files: off (reference), cold, warm, stale, truncated, unwritable"""
    v = []
    info = {"events": 0, "cache_files": 0, "ended": False}
    d = os.path.join(SCRATCH, "c20-%d-%s" % (os.getpid(), tag))
    shutil.rmtree(d, ignore_errors=True)
    os.makedirs(d)
    try:
        off = {"USCXML_NOCACHE_FILES": "1", "TMPDIR": d}
        on = {"USCXML_NOCACHE_FILES": "0", "TMPDIR": d}
        ref = usim.run(interp_plan(plan, off))
        if ref.failed_hard():
            info["ended"] = True
            return v, info
        want = norm_trace(ref)
        info["events"] = len([1 for s in want.values() for x in s if x[0] == "ev"])

        def one(label):
            r = usim.run(interp_plan(plan, on))
            if r.failed_hard():
                hf = hard_failures(r, PROP)
                v.append(("C20.trace", "interpretation with a %s cache directory ended in %s; with cache files off it ran to the end" % (label, hf[0][0] if hf else "?")))
                return
            got = norm_trace(r)
            if got != want:
                for s in sorted(set(got) | set(want)):
                    x, y = want.get(s, []), got.get(s, [])
                    if x != y:
                        k = 0
                        while k < min(len(x), len(y)) and x[k] == y[k]:
                            k += 1
                        v.append(("C20.trace", "interpretation with a %s cache directory differs from cache files off in session %s at record %d: off=%s, %s=%s" % (
                            label, s, k, x[k] if k < len(x) else None, label, y[k] if k < len(y) else None)))
                        break
        one("cold")
        files = [f for f in os.listdir(os.path.join(d, "uscxml"))] if os.path.isdir(os.path.join(d, "uscxml")) else []
        info["cache_files"] = len(files)
        if not v:
            one("warm")
        if not v:
            # stale: another document was cached under the same URL
            for f in files:
                os.remove(os.path.join(d, "uscxml", f))
            usim.run(other_doc_plan(plan, on))
            one("stale")
        if not v:
            for f in os.listdir(os.path.join(d, "uscxml")) if os.path.isdir(os.path.join(d, "uscxml")) else []:
                pth = os.path.join(d, "uscxml", f)
                data = open(pth, "rb").read()
                open(pth, "wb").write(data[:len(data) // 2])
            one("truncated")
        if not v and os.path.isdir(os.path.join(d, "uscxml")):
            for f in os.listdir(os.path.join(d, "uscxml")):
                os.remove(os.path.join(d, "uscxml", f))
            os.chmod(os.path.join(d, "uscxml"), 0o555)
            one("unwritable")
            os.chmod(os.path.join(d, "uscxml"), 0o755)
    finally:
        try:
            if os.path.isdir(os.path.join(d, "uscxml")):
                os.chmod(os.path.join(d, "uscxml"), 0o755)
        except OSError:
            pass
        shutil.rmtree(d, ignore_errors=True)
        # leave the child process with cache files off again (plan "env" is applied with setenv and persists)
        try:
            usim.run({"id": 0, "seed": 1, "sched": {"policy": "nonpreempt"}, "charts": {}, "actors": {"main": []},
                      "env": {"USCXML_NOCACHE_FILES": "1", "TMPDIR": SCRATCH}})
        except Exception:
            pass
    return v, info


def evaluate(plan, usim):
    """Layout dependence shows up more readily in processes whose heap has a history: several rounds, each with a fresh
    pair of processes that first transform a few other documents."""
    v = []
    for rnd in range(4):
        a = usimlib.Usim("plain")
        b = usimlib.Usim("plain", wrapper=["setarch", "x86_64", "-R"])
        try:
            for j in range(rnd * 3):
                other = gen_plan(usimlib.splitmix(plan.get("seed", 1) + 977 * rnd + j), 0)
                a.run(other)
                if j % 2:
                    b.run(other)
            tv, _ = transform_check(plan, a, b)
            v += tv
        finally:
            a.kill()
            b.kill()
        if v:
            break
    cv, _ = cache_check(plan, usim, "eval%d" % plan.get("id", 0))
    return v + cv


def run_one(ctx, usim, seed, k, acc):
    plan = gen_plan(seed, k)
    v, info = transform_check(plan, usim, ctx.usim_noaslr())
    cv, cinfo = cache_check(plan, usim, "w%d" % k)
    v += cv
    acc.count("pol.nonpreempt")
    acc.count("fault.heap_warmup_pattern", 2)
    acc.count("fault.second_live_instance", 1)
    acc.count("fault.aslr_off_process", 1)
    acc.count("fault.cache_dir_states", 5)
    acc.count("probe.backends_with_output", info["kinds"])
    acc.count("probe.cache_files_written", cinfo["cache_files"])
    acc.count("probe.events_interpreted", cinfo["events"])
    acc.count("runs_ended_by_verdict_or_crash_of_another_property", 1 if (info["ended"] or cinfo["ended"]) else 0)
    if info["kinds"] >= 2 and cinfo["events"] >= 1:
        acc.hashes.add(usimlib.hashlib.sha256(plan["charts"]["main"].encode()).hexdigest()[:16])
    for (rule, detail) in v:
        acc.violations.append({"rule": rule, "detail": detail, "plan": plan, "k": k})
        break
    if len(acc.samples) < 1 and info["kinds"] >= 2 and k < 64:
        acc.samples.append({"run": k, "seed": seed, "chart": plan["charts"]["main"][:3000], "ops": plan["actors"]["main"], "history": plan["history"]})


def classify(rule, detail, plan):
    return None
