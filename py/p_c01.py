"""C01 — Interpreter follows the W3C SCXML step algorithm on every chart.

Generated charts x histories of external events at seeded simulated times,
interleaved with the chart's own immediate and delayed sends, executed by the
default engine in deterministic-history mode on the simulated clock; every
step is compared with the executable transcription of Appendix D.
See DESIGN.md 6/C01.
"""
import json

import gen
import refine
import usimlib
from tracelib import *

PROP = "C01"
LEVEL = "exploration"
FLAVOUR = "plain"
TIERS = {"quick": (25000, 170), "thorough": (1500000, 3300)}
RULE_TEXT = ("one run = one generated chart (<= 10 states, depth <= 3, parallel/history/initial/final, internal/targetless/multi-target/eventless "
             "transitions, raise/send/cancel/assign/log/if content, early/late binding) in one of three datamodels x one history of <= 10 external events "
             "at seeded simulated times plus the chart's own delayed sends; every microstep is compared with the Appendix D reference model; "
             "non-trivial = at least 3 microsteps and 2 processed events were compared; distinct = distinct (chart, history) pairs by content hash")
ASSUMPTIONS = [
    "the reference model (py/refmodel.py) is a faithful transcription of Recommendation Appendix D; divergences are triaged against the Recommendation text",
    "the program space is sampled by a generator (bounds in DESIGN 4.1), not enumerated",
    "external event order is the one the implementation dequeued (its admissibility is C08/C09)",
]
ENGINE = "default"


class Context(object):
    def __init__(self, prop, tier, opts):
        self.opts = opts


def gen_chart(rp, dm=None, features=None, max_states=10):
    dm = dm or rp.choice(["null", "lua", "promela"])
    features = dict(features or {})
    par_p = features.pop("par_p", 0.3)
    hist_p = features.pop("hist_p", 0.15)
    x = rp.random()
    if "par_bias" not in features and x < par_p:
        features["par_bias"] = True
        features["small_alphabet"] = True
    elif "hist_bias" not in features and features.get("history", True) and x < par_p + hist_p:
        features["hist_bias"] = True
        features["small_alphabet"] = True
    g = gen.Gen(rp, dm, max_states=max_states, features=features)
    root = g.build()
    root.meta = dict(root.meta or {}, par_bias=bool(features.get("par_bias") or features.get("hist_bias")), completable=bool(getattr(g, "completable", False)))
    return root


def history_ops(rp, i=0, many=None):
    ops = []
    ops.append({"op": "run", "i": i, "block": 0, "until": ["IDLE"], "max": 120})
    r = rp.random()
    if many is None:
        many = r < 0.3      # long histories over a small alphabet: the same situation recurs
    for _ in range(rp.randint(0, 10) if not many else rp.randint(10, 24)):
        x = rp.random()
        if x < 0.3:
            ops.append({"op": "sleep", "ms": rp.choice([1, 2, 5, 10, 11, 30])})
            ops.append({"op": "run", "i": i, "block": 0, "until": ["IDLE"], "max": 120})
        else:
            ops.append({"op": "recv", "i": i, "name": rp.choice(gen.EXT_EVENTS + ["a", "b", "zz"]) if not many else rp.choice(["a", "b", "a", "b", "a.x", "c"])})
            if rp.random() < 0.7:
                ops.append({"op": "run", "i": i, "block": 0, "until": ["IDLE"], "max": 120})
    ops.append({"op": "sleep", "ms": 60})
    ops.append({"op": "run", "i": i, "block": 0, "until": ["IDLE"], "max": 120})
    ops.append({"op": "cancel", "i": i})
    ops.append({"op": "run", "i": i, "block": 0, "until": ["FINISHED"], "max": 120})
    return ops


def gen_plan(seed, k, engine=None, dm=None, features=None):
    rp = usimlib.substream(seed, "plan")
    root = gen_chart(rp, dm, features)
    ops = [{"op": "create", "i": 0, "chart": "main", "engine": engine or ENGINE}, {"op": "validate", "i": 0}]
    ops += history_ops(rp, many=(True if (root.meta or {}).get('par_bias') and rp.random() < 0.8 else None))
    return {"id": k, "seed": seed, "entropy_seed": seed & 0x7fffffff,
            "sched": {"seed": seed & 0x7fffffff, "policy": "nonpreempt", "max_decisions": 400000}, "step_budget": 200,
            "charts": {"main": root.xml()}, "actors": {"main": ops}}


def validation_fatal(res):
    for r in res.lines:
        if r[KIND] == "op>" and r[6] == "validate":
            return r[7] == "FATAL"
    return False


def oracle(plan, res):
    v = hard_failures(res, PROP)
    info = {"nontrivial": False, "fatal": False, "microsteps": 0, "events": 0}
    if res.end is None or res.failed_hard():
        return v, info
    if validation_fatal(res):
        info["fatal"] = True
        return v, info
    root = gen.from_xml(plan["charts"]["main"])
    rv, rinfo = refine.refine(root, plan, res)
    v += rv
    info["microsteps"] = rinfo["microsteps"]
    info["events"] = rinfo["events"]
    info["probes"] = rinfo.get("probes", {})
    info["nontrivial"] = rinfo["microsteps"] >= 3 and rinfo["events"] >= 2
    return v, info


def evaluate(plan, usim):
    return oracle(plan, usim.run(plan))[0]


def run_one(ctx, usim, seed, k, acc):
    plan = gen_plan(seed, k)
    res = usim.run(plan)
    v, info = oracle(plan, res)
    end = res.end or {}
    acc.sim_ms += end.get("sim_ms", 0)
    acc.decisions += end.get("decisions", 0)
    acc.count("pol.nonpreempt")
    acc.count("datamodel." + plan["charts"]["main"].split('datamodel="')[1].split('"')[0])
    acc.count("charts_rejected_by_validate", 1 if info["fatal"] else 0)
    acc.count("probe.microsteps_compared", info["microsteps"])
    acc.count("probe.events_compared", info["events"])
    for pk, pv in info.get("probes", {}).items():
        acc.count("probe.microsteps_" + pk, pv)
    acc.count("probe.timers_fired", end.get("ev_fired", 0))
    acc.count("fault.none_injected_fault_free_histories", 1)
    if info["nontrivial"]:
        acc.hashes.add(usimlib.hashlib.sha256((plan["charts"]["main"] + json.dumps(plan["actors"])).encode()).hexdigest()[:16])
    if k % 100 == 7 and not res.failed_hard():
        res2 = usim.run(plan)
        acc.recheck_n += 1
        if res2.trace_hash != res.trace_hash:
            acc.recheck_mismatch += 1
    for (rule, detail) in v:
        acc.violations.append({"rule": rule, "detail": detail, "plan": plan, "k": k})
        break
    if len(acc.samples) < 1 and info["nontrivial"] and k < 64:
        acc.samples.append({"run": k, "seed": seed, "chart": plan["charts"]["main"], "ops": plan["actors"]["main"],
                            "microsteps_compared": info["microsteps"], "events_compared": info["events"]})


def history_of_active_parent(xml, enabled_xpaths):
    """Is one of the transitions a transition into a history pseudo-state whose parent contains the transition's source?"""
    root = gen.from_xml(xml)
    idx = root.index_by_xpath()
    byid = {e.attrs["id"]: e for e in root.walk() if "id" in e.attrs}
    for xp in enabled_xpaths:
        for t in idx.get(xp, []):
            for tid in t.attrs.get("target", "").split():
                h = byid.get(tid)
                if h is not None and h.tag == "history":
                    par = h.parent
                    p = t.parent
                    while p is not None:
                        if p is par:
                            return True
                        p = p.parent
    return False


VARIANTS = [
    ("postfix_order", "C01-transition-content-order-postfix-vs-appendix-d"),
    ("alt_after_preempt", "C01-selection-continues-after-preempted-transition"),
]


def _first_div_seq(v):
    import re
    for (rule, detail) in v:
        if rule.startswith("C01."):
            m = re.search(r"unit at seq (\d+)", detail)
            return int(m.group(1)) if m else 0
    return None


def classify(rule, detail, plan, fail_elems=None, fail_occ_fn=None):
    import re
    m = re.search(r"enabled=(\[.*\])$", detail)
    enabled = []
    if not rule.startswith("C01.") or "[" in rule:
        return None
    if m and rule.split(".")[1] in ("exit", "entry", "content", "log", "raise", "send", "configuration", "transition"):
        try:
            enabled = json.loads(m.group(1))
        except ValueError:
            enabled = []
        if enabled and history_of_active_parent(plan["charts"]["main"], enabled):
            return "C01-transition-into-history-of-active-parent"
    # does a known deviation of the implementation explain the *first* divergence?
    u = usimlib.Usim(FLAVOUR)
    try:
        res = u.run(plan)
    finally:
        u.kill()
    if res.failed_hard():
        return None
    root = gen.from_xml(plan["charts"]["main"])
    fail_occ = fail_occ_fn(root, res)[0] if fail_occ_fn else None
    base = _first_div_seq(refine.refine(root, plan, res, fail_elems=fail_elems, fail_occ=fail_occ)[0])
    if base is None:
        return None
    for (variant, fid) in VARIANTS:
        root = gen.from_xml(plan["charts"]["main"])
        vv = refine.refine(root, plan, res, variant=(variant,), fail_elems=fail_elems, fail_occ=fail_occ)[0]
        s = _first_div_seq(vv)
        if s is None or s > base:
            return fid
        # two deviations in the same microstep: the variant changes the selection, and what then differs is the history target
        for (r2, d2) in vv:
            m2 = re.search(r"enabled=(\[.*\])$", d2)
            if r2.startswith("C01.") and m2 and r2.split(".")[1] in ("exit", "entry", "content", "log", "raise", "send", "configuration", "transition"):
                try:
                    en2 = json.loads(m2.group(1))
                except ValueError:
                    en2 = []
                if en2 and en2 != (enabled if m else None) and history_of_active_parent(plan["charts"]["main"], en2):
                    return "C01-transition-into-history-of-active-parent"
            break
    return None
