"""Common driver for all property checks: build, pool, gate, minimise, replay files,
known findings, evidence.  See DESIGN.md sections 8 and 10."""
import copy
import re
import json
import os
import subprocess
import sys
import time
import xml.etree.ElementTree as ET

import usimlib
from usimlib import VERIF, Usim, Accum

EVIDENCE_DIR = os.path.join(VERIF, "evidence")
REPLAY_DIR = os.path.join(VERIF, "replays")
KNOWN_FILE = os.path.join(VERIF, "known_findings.json")

COMPONENTS_REAL = [
    "uscxml interpreter/* (InterpreterImpl, LargeMicroStep, FastMicroStep, BasicContentExecutor, BasicEventQueue, BasicDelayedEventQueue)",
    "uscxml plugins: Factory, DataModel/IOProcessor/Invoker facades, datamodel/{null,lua,promela}, invoker/scxml (USCXMLInvoker), ioprocessor/scxml",
    "uscxml messages/*, util/*, debug/InterpreterIssue, transform/*",
    "Xerces-C 3.2, Lua 5.3, libstdc++ (statically linked so that its pthread calls are intercepted)",
]
COMPONENTS_SIM = [
    "thread scheduling and pthread mutex/condition/join (link-time wrappers, baton scheduler)",
    "CLOCK_REALTIME/CLOCK_MONOTONIC/gettimeofday/time/nanosleep (simulated clock)",
    "libevent timer subset (simevent model, 9 functions)",
    "UUID entropy (uscxml::uuidGen re-seated on a seeded generator)",
]
COMPONENTS_NOT_BUILT = [
    "HTTP server, http/basichttp I/O processors, DirMon invoker, URL fetcher thread, debugger, language bindings",
]


def log(*a):
    print(*a, file=sys.stderr, flush=True)


def build(flavours):
    t0 = time.time()
    for f in flavours:
        p = subprocess.run(["make", "-C", VERIF, "-j16", f], capture_output=True, text=True)
        if p.returncode != 0:
            log(p.stdout[-3000:])
            log(p.stderr[-3000:])
            log("BUILD FAILED (%s)" % f)
            sys.exit(2)
    return time.time() - t0


def load_known():
    if not os.path.exists(KNOWN_FILE):
        return {"findings": [], "fixed": []}
    return json.load(open(KNOWN_FILE))


# ----------------------------------------------------------------------------------
# minimisation: generic delta debugging over plan ops, scheduler knobs and chart XML
# ----------------------------------------------------------------------------------

def _chart_ok(root):
    """Keep candidates inside the space of documents the generators produce: at
    least one state below <scxml>, no dangling transition targets / initial ids."""
    ns = "{http://www.w3.org/2005/07/scxml}"
    ids = set()
    for e in root.iter():
        if e.get("id") and e.tag.replace(ns, "") in ("state", "parallel", "final", "history"):
            ids.add(e.get("id"))
    if not any(c.tag.replace(ns, "") in ("state", "parallel", "final") for c in root):
        return False
    for e in root.iter():
        tag = e.tag.replace(ns, "")
        if tag in ("history", "initial") and not [c for c in e if c.tag.replace(ns, "") == "transition" and c.get("target")]:
            return False
        refs = []
        if tag == "transition" and e.get("target"):
            refs += e.get("target").split()
        if tag in ("scxml", "state") and e.get("initial"):
            refs += e.get("initial").split()
        for r in refs:
            if r not in ids:
                return False
    # the generators only refer to declared variables (an undeclared one is nil in Lua, an error elsewhere)
    declared = set(e.get("id") for e in root.iter() if e.tag.replace(ns, "") == "data")
    for e in root.iter():
        for a in ("expr", "cond", "location", "namelist", "eventexpr"):
            if e.get(a) and e.tag.replace(ns, "") != "data":
                for name in re.findall(r"\bv\d+\b", e.get(a)):
                    if name not in declared:
                        return False
    return True


def _chart_candidates(xml):
    """Yield (key, chart text) with one element removed; parents before children, later siblings first,
    so whole subtrees go first and the keys (index paths) of elements not tried yet stay valid."""
    try:
        root = ET.fromstring(xml)
    except ET.ParseError:
        return
    elems = []

    def walk(e, path):
        for n, c in enumerate(list(e)):
            walk(c, path + (n,))
            elems.append((e, c, path + (n,)))
    walk(root, ())
    ET.register_namespace("", "http://www.w3.org/2005/07/scxml")
    for parent, child, key in reversed(elems):
        idx = list(parent).index(child)
        parent.remove(child)
        if _chart_ok(root):
            yield key, ET.tostring(root, encoding="unicode")
        parent.insert(idx, child)


def minimise(plan, still_fails, budget=250, sched_seeds=8, wall_s=240):
    """Greedy one-at-a-time reduction.  still_fails(plan) -> bool must test for the
    same rule id.  Schedule-dependent failures are retried under several
    scheduler seeds per candidate; the seed that fails is kept.  Plans that run in
    deterministic-history mode (policy nonpreempt, no scheduler faults) do not depend on
    the seed and get one try per candidate and a larger budget."""
    runs = [0]
    t_end = time.time() + wall_s
    sc = plan.get("sched", {})
    if sc.get("policy") == "nonpreempt" and not any(sc.get(k) for k in ("spurious_p", "stall_p", "time_adv_p")):
        sched_seeds = 1
        budget = max(budget, 2500)

    def out_of_budget():
        return runs[0] >= budget or time.time() > t_end

    def test(p):
        if out_of_budget():
            return None
        base_seed = p.get("sched", {}).get("seed", p.get("seed", 1))
        for j in range(sched_seeds):
            if out_of_budget():
                return None
            q = copy.deepcopy(p)
            q.setdefault("sched", {})["seed"] = base_seed if j == 0 else usimlib.splitmix(base_seed + j) % (1 << 31)
            runs[0] += 1
            if still_fails(q):
                return q
        return None

    cur = copy.deepcopy(plan)
    changed = True
    while changed and not out_of_budget():
        changed = False
        # 1. scheduler faults off
        for knob in ("spurious_p", "stall_p", "time_adv_p"):
            if cur.get("sched", {}).get(knob):
                q = copy.deepcopy(cur)
                q["sched"][knob] = 0
                r = test(q)
                if r:
                    cur = r
                    changed = True
        # 2. drop ops (last first), never the create ops
        for actor in sorted(cur.get("actors", {})):
            ops = cur["actors"][actor]
            i = len(ops) - 1
            while i >= 0 and not out_of_budget():
                if ops[i].get("op") in ("create",):
                    i -= 1
                    continue
                q = copy.deepcopy(cur)
                del q["actors"][actor][i]
                r = test(q)
                if r:
                    cur = r
                    ops = cur["actors"][actor]
                    changed = True
                i -= 1
        # 3. chart elements
        for cname in sorted(cur.get("charts", {})):
            tried = set()
            progress = True
            while progress and not out_of_budget():
                progress = False
                for key, cand in _chart_candidates(cur["charts"][cname]):
                    if key in tried:
                        continue
                    tried.add(key)
                    q = copy.deepcopy(cur)
                    q["charts"][cname] = cand
                    r = test(q)
                    if r:
                        cur = r
                        progress = True
                        changed = True
                        break
                    if out_of_budget():
                        break
    return cur, runs[0]


# ----------------------------------------------------------------------------------
# the check driver
# ----------------------------------------------------------------------------------

class Check(object):
    """A property module provides:
         PROP, LEVEL, RULE_TEXT, TIERS = {"quick": (nruns, wall_cap_s), ...}, FLAVOUR(s)
         Context(prop, tier, opts), run_one(ctx, usim, seed, k, acc)
         evaluate(plan, usim) -> list[(rule, detail)]   (re-execution for gate / minimise / replay)
         classify(rule, detail, plan) -> known-finding id or None   (optional)
    """

    def __init__(self, mod):
        self.mod = mod
        self.prop = mod.PROP

    def evaluate_fresh(self, plan, flavour):
        u = Usim(plan.get("flavour", flavour))
        try:
            return self.mod.evaluate(plan, u)
        finally:
            u.kill()

    def run(self, tier, verif_seed, workers=16, opts=None):
        mod = self.mod
        opts = dict(opts or {})
        flavour = opts.get("flavour", getattr(mod, "FLAVOUR", "plain"))
        nruns, wall_cap = mod.TIERS[tier]
        if "nruns" in opts:
            nruns = opts["nruns"]
        t0 = time.time()
        build_s = build(sorted(set([flavour] + list(getattr(mod, "FLAVOURS", [])))))
        known = load_known()
        opts["known_ids"] = [x["id"] for x in known.get("findings", []) if x["property"] == self.prop]
        total = usimlib.run_pool(mod.__name__, self.prop, tier, verif_seed, nruns, workers, flavour, wall_cap, opts)
        status = 0
        reported = []
        known_hit = {}
        if total.harness_errors:
            for e in total.harness_errors[:5]:
                log("HARNESS ERROR:", e)
            status = 2
        if total.recheck_mismatch:
            log("DETERMINISM RECHECK MISMATCH: %d of %d" % (total.recheck_mismatch, total.recheck_n))
            status = 2
        # group violations by (rule, classifier)
        groups = {}
        for v in sorted(total.violations, key=lambda v: v["k"]):
            cls = self.classify(v["rule"], v["detail"], v["plan"], known)
            key = (v["rule"], cls)
            groups.setdefault(key, []).append(v)
        for (rule, cls), vs in sorted(groups.items(), key=lambda kv: str(kv[0])):
            v = vs[0]
            if cls is not None:
                known_hit[cls] = known_hit.get(cls, 0) + len(vs)
                continue
            # gate: must reproduce in a fresh process with the same rule
            again = self.evaluate_fresh(v["plan"], flavour)
            rules_again = [r for (r, d) in again]
            if rule not in rules_again:
                log("GATE: violation %s of run %d did not reproduce in a fresh process (got %s)" % (rule, v["k"], rules_again))
                log("      detail of the unreproduced violation: %s" % v["detail"][:3000])
                status = 2
                continue
            # one child process for the whole reduction (restarted when it dies); the result is gated in a fresh one below.
            # A candidate counts only if it still shows the same rule and is not one of the recorded findings: the reduction
            # must not drift from a new violation into a known one
            mu = Usim(v["plan"].get("flavour", flavour))

            def still_fails(p, _mu=mu, _rule=rule):
                # a property module may restrict the reduction to the space of plans its generator can produce
                if hasattr(self.mod, "plan_ok") and not self.mod.plan_ok(p):
                    return False
                if p.get("flavour", flavour) != _mu.flavour:
                    return _rule in [r for (r, d) in self.evaluate_fresh(p, flavour)]
                for (r, d) in self.mod.evaluate(p, _mu):
                    if r == _rule and self.classify(r, d, p, known) is None:
                        return True
                return False
            try:
                small, nre = minimise(v["plan"], still_fails, budget=opts.get("min_budget", 200))
            finally:
                mu.kill()
            final = self.evaluate_fresh(small, flavour)
            detail = [d for (r, d) in final if r == rule]
            # the minimised case may turn out to be a known finding
            cls2 = self.classify(rule, detail[0] if detail else v["detail"], small, known)
            if cls2 is not None:
                known_hit[cls2] = known_hit.get(cls2, 0) + len(vs)
                continue
            path = self.write_replay(rule, small, detail[0] if detail else v["detail"], v, nre, flavour)
            reported.append((rule, path, len(vs)))
            if status == 0:
                status = 1
        for cls, n in total.known.items():
            # the first example of each class per worker went through the loop above; add the ones only counted
            extra = n - 1
            if extra > 0:
                known_hit[cls] = known_hit.get(cls, 0) + extra
        for cls, n in sorted(known_hit.items()):
            f = [x for x in known["findings"] if x["id"] == cls][0]
            print("KNOWN-FINDING: property=%s %s [%s] (%d runs)" % (self.prop, f["what"], cls, n))
        for (rule, path, n) in reported:
            print("VIOLATION property=%s replay=%s rule=%s runs=%d" % (self.prop, path, rule, n))
        wall = time.time() - t0
        self.write_evidence(tier, verif_seed, total, wall, build_s, len(reported), known_hit, workers, flavour, nruns)
        if status == 0:
            print("OK property=%s tier=%s runs=%d distinct=%d wall=%.1fs" % (self.prop, tier, total.runs, len(total.hashes), wall))
        sys.stdout.flush()
        return status

    def classify(self, rule, detail, plan, known):
        f = getattr(self.mod, "classify", None)
        if not f:
            return None
        cls = f(rule, detail, plan)
        if cls is None:
            return None
        for x in known.get("findings", []):
            if x["id"] == cls and x["property"] == self.prop:
                return cls
        return None

    def write_replay(self, rule, plan, detail, orig, nre, flavour):
        os.makedirs(REPLAY_DIR, exist_ok=True)
        name = "%s-%s-%d.json" % (self.prop, re.sub(r"[^A-Za-z0-9_+-]", "_", rule)[:80], orig["k"])
        path = os.path.join(REPLAY_DIR, name)
        doc = {"format": 1, "property": self.prop, "rule": rule, "flavour": flavour,
               "seed": orig["plan"].get("seed"), "run_index": orig["k"],
               "minimisation_reruns": nre, "detail": detail, "plan": plan}
        with open(path, "w") as f:
            json.dump(doc, f, indent=1)
        return path

    def replay(self, path):
        doc = json.load(open(path))
        flavour = doc.get("flavour", "plain")
        build([flavour])
        res = self.evaluate_fresh(doc["plan"], flavour)
        rules = [r for (r, d) in res]
        for (r, d) in res:
            print("replay: rule=%s\n%s" % (r, d))
        if doc["rule"] in rules:
            print("VIOLATION property=%s replay=%s rule=%s" % (self.prop, path, doc["rule"]))
            return 1
        print("replay of %s: rule %s NOT reproduced (got %s)" % (path, doc["rule"], rules))
        return 0

    def write_evidence(self, tier, seed, total, wall, build_s, nviol, known_hit, workers, flavour, nruns_planned):
        mod = self.mod
        os.makedirs(EVIDENCE_DIR, exist_ok=True)
        runs = max(total.runs, 0)
        cov = {
            "evaluations": runs,
            "distinct_nontrivial": len(total.hashes),
            "rule": mod.RULE_TEXT,
            "samples": total.samples[:3] if total.samples else [],
            "runs_planned": nruns_planned,
            "runs_per_hour": int(runs / wall * 3600) if wall > 0 else 0,
            "seeds": "run k uses splitmix(VERIF_SEED=%d, '%s', k), k in [0,%d)" % (seed, self.prop, nruns_planned),
            "simulated_ms_total": total.sim_ms,
            "scheduler_decisions_total": total.decisions,
            "faults_fired": {k[6:]: v for k, v in sorted(total.counters.items()) if k.startswith("fault.")},
            "probes": {k[6:]: v for k, v in sorted(total.counters.items()) if k.startswith("probe.")},
            "scheduler_policies": {k[4:]: v for k, v in sorted(total.counters.items()) if k.startswith("pol.")},
            "other_counters": {k: v for k, v in sorted(total.counters.items()) if not k.startswith(("fault.", "probe.", "pol."))},
            "interleaving_measure": getattr(mod, "INTERLEAVING_MEASURE", "distinct hashes of the scheduler decision sequence (task chosen, kind of synchronisation point) among non-trivial runs"),
            "components_real": COMPONENTS_REAL + list(getattr(mod, "COMPONENTS_REAL_EXTRA", [])),
            "components_simulated": COMPONENTS_SIM + list(getattr(mod, "COMPONENTS_SIM_EXTRA", [])),
            "components_not_built": COMPONENTS_NOT_BUILT,
            "known_findings_hit": known_hit,
            "determinism_recheck": {"n": total.recheck_n, "mismatches": total.recheck_mismatch},
            "workers": workers,
            "flavour": flavour,
            "usim_process_starts": total.usim_starts,
            "build_s": round(build_s, 1),
        }
        ev = {
            "property_id": self.prop,
            "tier": tier,
            "seed": seed,
            "level": mod.LEVEL,
            "coverage": cov,
            "assumptions": getattr(mod, "ASSUMPTIONS", []),
            "wall_s": round(wall, 2),
            "violations": nviol,
        }
        with open(os.path.join(EVIDENCE_DIR, "%s.json" % self.prop), "w") as f:
            json.dump(ev, f, indent=1)
