"""C04 — Generated ANSI-C machine behaves like the interpreted chart.

For generated charts in the transpiler's fragment (null datamodel: In()
conditions, raise / send / cancel / log content, history, parallel, no invoke)
ChartToC::transform is called in-process; the emitted text is compiled as C
(gcc -O0 -fsanitize=address,undefined, with the sizing macros the generator
emitted) together with a host whose callbacks are backed by its own queues,
and driven by the external event order that the interpreter dequeued under the
same timed history on the simulated clock.  See DESIGN.md 6/C04.
"""
import json
import os
import shutil
import subprocess

import gen
from scx import El
import p_c01
import usimlib
from tracelib import *

PROP = "C04"
LEVEL = "exploration"
FLAVOUR = "plain"
TIERS = {"quick": (1800, 170), "thorough": (40000, 3300)}
RULE_TEXT = ("one run = one generated null-datamodel chart (<= 10 states, parallel/history/final, internal/targetless/multi-target/eventless transitions, "
             "raise/send/cancel/log/if content) x one timed history; the interpreter runs in the simulator, the emitted C is compiled with ASan+UBSan and hosted; "
             "compared: events dequeued, executed content (log, raise, send, cancel, done events) and configurations; non-trivial = at least 2 events and 3 "
             "configuration changes compared; distinct = distinct (chart, history) hashes")
ASSUMPTIONS = [
    "differential execution inside the simulator, not an interleaving search: the generated machine has no threads or timers of its own; the simulator contributes the shared timed history and exact replay",
    "null datamodel only (conditions are In() predicates); no invoke; fault-free plans (the generated step function aborts a step when a callback fails, which the property does not specify)",
    "the host's event matcher is written from Recommendation 3.12.1, not taken from the repository's scaffolding",
]
SCRATCH = os.path.join(usimlib.BUILD, "scratch")
HOST_C = os.path.join(usimlib.VERIF, "harness", "chost", "host.c")


COMPONENTS_REAL_EXTRA = ['ChartToC::transform (in-process) and the C text it emits, compiled by gcc with ASan+UBSan and executed']
COMPONENTS_SIM_EXTRA = ["the generated machine's environment: harness/chost/host.c (callbacks, queues, In() predicate, event matcher written from Recommendation 3.12.1)"]


class Context(object):
    def __init__(self, prop, tier, opts):
        self.opts = opts


def gen_plan(seed, k):
    rp = usimlib.substream(seed, "plan")
    root = p_c01.gen_chart(rp, "null", {"late": False, "delayed_internal": False, "hist_p": 0.3})
    # the data a done event carries: some of the nested final states have <donedata>, others have none
    nd = 0
    for e in list(root.walk()):
        if e.tag == "final" and e.parent is not root and rp.random() < 0.5:
            nd += 1
            e.add(El("donedata", children=[El("content", text="dd%d" % nd)]))
    ops = [{"op": "create", "i": 0, "chart": "main", "engine": "default"}, {"op": "validate", "i": 0},
           {"op": "transform", "i": 0, "kind": "c", "full": True}]
    ops += p_c01.history_ops(rp, many=(True if (root.meta or {}).get("par_bias") and rp.random() < 0.8 else None))
    return {"id": k, "seed": seed, "entropy_seed": seed & 0x7fffffff, "step_budget": 200,
            "sched": {"seed": seed & 0x7fffffff, "policy": "nonpreempt", "max_decisions": 400000},
            "charts": {"main": root.xml()}, "actors": {"main": ops}}


def cancel_ids(xml):
    root = gen.from_xml(xml)
    return {e.xpath(): e.attrs.get("sendid", "") for e in root.walk() if e.tag == "cancel"}


def interp_stream(plan, res):
    """normalised observation stream of the interpreter + the order of external events it dequeued"""
    lines = res.lines
    b = Bindings(lines)
    intq, extq, dlyq = b.int.get("i0"), b.ext.get("i0"), b.dly.get("i0")
    cids = cancel_ids(plan["charts"]["main"])
    out = []
    ext_order = []
    last_cfg = None
    pending = False
    own_task = None
    delayed = set()
    last_deq_role = None
    finished = False
    for r in lines:
        kd, s = r[KIND], r[SESS]
        if s == "i0":
            if own_task is None and kd in ("bms", "st"):
                own_task = r[TASK]
            if kd == "ev":
                out.append(("E", r[5]["name"]))
                if last_deq_role == "ext":
                    ext_order.append(r[5]["name"])
                pending = True
            elif kd == "log" and r[5] == 4:
                out.append(("l", r[6].split(":")[0]))
                pending = True
            elif kd == "bxc" and r[5] in cids:
                out.append(("k", cids[r[5]]))
                pending = True
            elif kd == "st":
                if r[5] in ("INITIALIZED", "EXC"):
                    continue
                cfg = tuple(x for x in r[6].split() if not x.startswith("#/"))
                if r[5] == "FINISHED":
                    if not finished:
                        out.append(("done",))
                    finished = True
                    continue
                # configurations are compared where they change (the generated step function may consume several
                # events that enable nothing within one call, the interpreter returns after each)
                if cfg != last_cfg:
                    out.append(("cfg",) + cfg)
                last_cfg = cfg
                pending = False
        elif s == intq and kd == "enq<":
            nm = r[6]["name"]
            if nm.startswith("done.state.") and r[6].get("data"):
                nm += " dd=" + r[6]["data"].strip('"')
            out.append(("r", nm))
            pending = True
        elif s == dlyq and kd == "dly<":
            delayed.add(r[7])
            out.append(("s", r[5]["name"], str(r[6])))
            pending = True
        elif s == extq and kd == "enq<":
            if r[7] not in delayed and r[6].get("origin") and r[TASK] == own_task:
                out.append(("s", r[6]["name"], "0"))
                pending = True
        if kd == "deq>" and s in (intq, extq) and r[6].get("name"):
            last_deq_role = "ext" if s == extq else "int"
    return out, ext_order


def host_stream(text):
    out = []
    err = None
    for ln in text.splitlines():
        p = ln.split(" ")
        if p[0] == "HOSTERR":
            err = ln
        elif p[0] in ("E", "l", "r", "k"):
            out.append((p[0], " ".join(p[1:])))
        elif p[0] == "s":
            out.append(("s", p[1], p[2]))
        elif p[0] == "cfg":
            out.append(("cfg",) + tuple(p[1:]))
        elif p[0] == "done":
            out.append(("done",))
    return out, err


def build_and_run_host(ctext, events, tag):
    d = os.path.join(SCRATCH, "c04-%d-%s" % (os.getpid(), tag))
    shutil.rmtree(d, ignore_errors=True)
    os.makedirs(d)
    try:
        with open(os.path.join(d, "machine.c"), "w") as f:
            f.write(ctext)
        cc = subprocess.run(["gcc", "-O0", "-g", "-w", "-fsanitize=address,undefined", "-fno-sanitize-recover=undefined", "-I", d,
                             "-DMACHINE_FILE=\"machine.c\"", HOST_C, "-o", os.path.join(d, "host")], capture_output=True, text=True)
        if cc.returncode != 0:
            return None, "compile", cc.stderr[-1500:]
        env = dict(os.environ)
        env["ASAN_OPTIONS"] = "detect_leaks=0:exitcode=77"
        env["UBSAN_OPTIONS"] = "print_stacktrace=1:halt_on_error=1:exitcode=77"
        try:
            run = subprocess.run([os.path.join(d, "host")] + events, capture_output=True, text=True, timeout=60, env=env)
        except subprocess.TimeoutExpired:
            return None, "timeout", ""
        if run.returncode != 0:
            return run.stdout, "exit%d" % run.returncode, run.stderr[-2500:]
        return run.stdout, None, ""
    finally:
        shutil.rmtree(d, ignore_errors=True)


def check(plan, usim, tag):
    v = []
    info = {"nontrivial": False, "skipped": None, "events": 0, "cfgs": 0}
    res = usim.run(plan)
    if res.end:
        info["sim_ms"] = res.end.get("sim_ms", 0)
        info["decisions"] = res.end.get("decisions", 0)
    if res.failed_hard():
        info["skipped"] = "interpreter run ended by a verdict/crash of another property"
        return v, info
    for r in res.lines:
        if r[KIND] == "op>" and r[6] == "validate" and r[7] == "FATAL":
            info["skipped"] = "validate FATAL"
            return v, info
    ctext = None
    for r in res.lines:
        if r[KIND] == "xform" and r[5] == "c":
            ctext = r[8]
    if ctext is None:
        info["skipped"] = "transformer threw"
        return v, info
    # a chart that loops without events is cut by the step cap / plan budget: compare up to there, the generated machine just goes on
    capped = [r[SEQ] for r in res.lines if r[KIND] == "op>" and r[6] == "run" and r[7] not in ("IDLE", "FINISHED")]
    info["capped"] = bool(capped)
    istream, ext_order = interp_stream(plan, res)
    if capped:
        ext_order = interp_stream_until(plan, res, capped[0], want_ext=True)
    out, herr, stderr = build_and_run_host(ctext, ext_order, tag)
    if herr == "compile":
        v.append(("C04.does-not-compile", "the emitted C does not compile:\n" + stderr))
        return v, info
    if herr == "exit3":
        # the host's internal queue (4096 entries) overflowed: the generated machine keeps raising events where the interpreter came to rest
        herr = None
    if herr and herr.startswith("exit"):
        kind = "sanitizer report" if herr == "exit77" else herr
        first = [ln for ln in stderr.splitlines() if "runtime error" in ln or "ERROR: AddressSanitizer" in ln][:1]
        v.append(("C04.out-of-bounds", "the hosted generated machine died (%s): %s\n%s" % (kind, first, stderr[:1500])))
        return v, info
    if herr == "timeout":
        v.append(("C04.trace-differs", "the hosted generated machine did not terminate within 60 s"))
        return v, info
    hstream, hosterr = host_stream(out or "")
    if hosterr and "step budget" in hosterr and not capped:
        info["skipped"] = "host step budget"
        return v, info
    # "the generated machine does not come to rest" only means something where the interpreter did: its last run op ended IDLE or FINISHED
    runs = [r[7] for r in res.lines if r[KIND] == "op>" and r[6] == "run"]
    rested = bool(runs) and runs[-1] in ("IDLE", "FINISHED") and not capped
    overflow = bool(hosterr and "overflow" in hosterr) and rested
    if hosterr and "overflow" in hosterr and not rested and not capped:
        info["skipped"] = "interpreter not run to rest"
        return v, info
    # the interpreter is cancelled by the harness at the end; the generated machine has no cancel: compare up to there
    n = len(istream)
    for idx, t in enumerate(istream):
        if t == ("done",):
            n = idx
            break
    # completion of a cancelled interpreter (onexit handlers) is not part of the generated machine's run
    cancel_seq = [r[SEQ] for r in res.lines if r[KIND] == "op<" and r[6] == "cancel"]
    a = istream[:n]
    bcp = None
    # cut the interpreter stream at the cancel
    cut = min(cancel_seq[:1] + capped[:1]) if (cancel_seq or capped) else None
    if cut is not None:
        a = interp_stream_until(plan, res, cut)
        if capped and capped[0] == cut:
            # the cut falls inside a macrostep: drop the last, possibly incomplete, event's records
            while a and a[-1][0] != "E":
                a.pop()
            if a:
                a.pop()
    hb = list(hstream)
    m = min(len(a), len(hb))
    if a[:m] != hb[:m] or (len(hb) < len(a)) or overflow:
        d = 0
        while d < m and a[d] == hb[d]:
            d += 1
        if d < len(a) or overflow:
            v.append(("C04.trace-differs", "record %d differs: interpreter=%s generated C=%s%s; before: %s; external order fed: %s" % (
                d, a[d] if d < len(a) else None, hb[d] if d < len(hb) else None, " (the generated machine went on until the host's queue of 4096 internal events overflowed)" if overflow else "",
                a[max(0, d - 4):d], ext_order[:12])))
    info["events"] = len([t for t in a if t[0] == "E"])
    info["cfgs"] = len([t for t in a if t[0] == "cfg"])
    info["nontrivial"] = info["events"] >= 2 and info["cfgs"] >= 3
    return v, info


def interp_stream_until(plan, res, seq, want_ext=False):
    class R(object):
        pass
    r2 = R()
    r2.lines = [r for r in res.lines if r[SEQ] < seq]
    return interp_stream(plan, r2)[1 if want_ext else 0]


def evaluate(plan, usim):
    return check(plan, usim, "eval%d" % plan.get("id", 0))[0]


def run_one(ctx, usim, seed, k, acc):
    plan = gen_plan(seed, k)
    v, info = check(plan, usim, "w%d" % k)
    acc.count("pol.nonpreempt")
    acc.count("fault.none_fault_free_histories")
    acc.count("runs_compared_up_to_the_step_cap", 1 if info.get("capped") else 0)
    acc.sim_ms += info.get("sim_ms", 0)
    acc.decisions += info.get("decisions", 0)
    if info["skipped"]:
        acc.count("skipped: " + info["skipped"])
    acc.count("probe.events_compared", info["events"])
    acc.count("probe.configurations_compared", info["cfgs"])
    if info["nontrivial"]:
        acc.hashes.add(usimlib.hashlib.sha256((plan["charts"]["main"] + json.dumps(plan["actors"])).encode()).hexdigest()[:16])
    for (rule, detail) in v:
        acc.violations.append({"rule": rule, "detail": detail, "plan": plan, "k": k})
        break
    if len(acc.samples) < 1 and info["nontrivial"] and k < 64:
        acc.samples.append({"run": k, "seed": seed, "chart": plan["charts"]["main"], "ops": plan["actors"]["main"], "events_compared": info["events"]})


def with_engine(plan, engine):
    q = json.loads(json.dumps(plan))
    for o in q["actors"]["main"]:
        if o.get("op") == "create":
            o["engine"] = engine
    return q


C03_TO_C04 = {
    "C03-fast-engine-suppresses-ancestor-transition-next-to-targetless-descendant": "C04-generated-c-suppresses-ancestor-transition-next-to-targetless-descendant",
    "C03-transition-into-history-of-active-parent": "C04-transition-into-history-of-active-parent",
}


def classify(rule, detail, plan):
    """The emitted step function is the fast engine's algorithm over bit arrays.  Where the generated machine differs from the
    (default, large) interpreter but agrees with the fast engine, and the fast/large difference on this very plan is one of
    the recorded C03 findings, the divergence is that finding seen through the transpiler."""
    if rule != "C04.trace-differs":
        return None
    import p_c03
    u = usimlib.Usim(FLAVOUR)
    try:
        if check(with_engine(plan, "fast"), u, "cls%d" % os.getpid())[0]:
            u.kill()
            return classify_reference(plan)
        p3 = json.loads(json.dumps(plan))
        p3["actors"]["main"] = [o for o in p3["actors"]["main"] if o.get("op") != "transform"]
        p3["source"] = "generated"
        for (r3, d3) in p_c03.evaluate(p3, u):
            cls = p_c03.classify(r3, d3, p3)
            if cls in C03_TO_C04:
                return C03_TO_C04[cls]
    finally:
        u.kill()
    return classify_reference(plan)


def classify_reference(plan):
    """The reference of this comparison is the interpreter.  Where the interpreter itself leaves Appendix D on this plan in
    one of the ways recorded under C01 (history of an active parent, selection after a preempted
    transition, content order), a difference to the generated machine cannot be held against the transpiler."""
    import refine
    p1 = json.loads(json.dumps(plan))
    p1["actors"]["main"] = [o for o in p1["actors"]["main"] if o.get("op") != "transform"]
    u = usimlib.Usim(FLAVOUR)
    try:
        res = u.run(p1)
    finally:
        u.kill()
    if res.failed_hard():
        return None
    try:
        root = gen.from_xml(p1["charts"]["main"])
    except Exception:
        return None
    for (r1, d1) in refine.refine(root, p1, res)[0]:
        if r1.startswith("C01.") and p_c01.classify(r1, d1, p1):
            return "C04-reference-interpreter-leaves-appendix-d-in-a-recorded-way"
        break
    return None
