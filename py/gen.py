"""Seeded generator of abstract charts (DESIGN.md 4.1) rendered as SCXML for the
null, lua or promela datamodel.  Expressions come from a tiny language that
refmodel.py evaluates itself and that is printed in the syntax of the chosen
datamodel, so "equivalent expressions" (C01) holds by construction."""
from scx import El

EXT_EVENTS = ["a", "b", "c", "a.x", "d"]
INT_EVENTS = ["i", "i.a", "j"]
DESCRIPTORS = ["a", "b", "c", "a.x", "a b", "d.*", "*", "i", "i.a", "j", "a.x c", "d", "i j"]
DELAYS = [0, 0, 1, 2, 5, 10, 10, 11, 50]


def render(ast, dm):
    k = ast[0]
    if k == "num":
        return str(ast[1])
    if k == "var":
        return ast[1]
    if k == "true":
        return "true"
    if k == "false":
        return "false"
    if k == "in":
        return "config[%s]" % ast[1] if dm == "promela" else "In('%s')" % ast[1]
    if k == "not":
        return ("!(%s)" if dm == "promela" else "not (%s)") % render(ast[1], dm)
    if k == "evname":
        return "_event.name"
    a, b = render(ast[1], dm), render(ast[2], dm)
    ops = {"add": "+", "sub": "-", "lt": "<", "le": "<=", "eq": "=="}
    if k in ops:
        return "(%s %s %s)" % (a, ops[k], b)
    if k == "ne":
        if dm == "promela":
            # the promela datamodel parses but does not evaluate '!=' (C17 territory, not claimed): stay inside
            # the operator set it evaluates
            return "!((%s == %s))" % (a, b)
        return "(%s ~= %s)" % (a, b)
    if k == "and":
        return "(%s %s %s)" % (a, "&&" if dm == "promela" else "and", b)
    if k == "or":
        return "(%s %s %s)" % (a, "||" if dm == "promela" else "or", b)
    raise ValueError(k)


class Gen(object):
    def __init__(self, rnd, dm="null", max_states=10, max_depth=3, features=None):
        self.r = rnd
        self.dm = dm
        self.max_states = max_states
        self.max_depth = max_depth
        f = {"history": True, "parallel": True, "targetless": True, "multitarget": True, "internal": True,
             "eventless": True, "sends": True, "ifs": True, "late": True, "initial_el": True, "done_events": True,
             "finals": True, "cond": True, "par_bias": False, "hist_bias": False, "small_alphabet": False, "delayed_internal": True}
        f.update(features or {})
        self.f = f
        self.nlog = 0
        self.nsend = 0
        self.vars = []
        self.sendids = []

    # ---- expressions -----------------------------------------------------------------
    def int_expr(self, depth=0):
        r = self.r
        if not self.vars or r.random() < 0.3:
            return ("num", r.randint(0, 3))
        if depth < 1 and r.random() < 0.4:
            return (r.choice(["add", "sub"]), self.int_expr(depth + 1), ("num", r.randint(0, 2)))
        return ("var", r.choice(self.vars))

    def bool_expr(self, state_ids, depth=0):
        r = self.r
        if self.dm == "null":
            return ("in", r.choice(state_ids))
        x = r.random()
        if x < 0.2:
            return ("in", r.choice(state_ids))
        if x < 0.3 and depth < 1:
            return (r.choice(["and", "or"]), self.bool_expr(state_ids, depth + 1), self.bool_expr(state_ids, depth + 1))
        if x < 0.36 and depth < 1:
            return ("not", self.bool_expr(state_ids, depth + 1))
        if x < 0.42:
            return (r.choice(["true", "false"]),)
        return (r.choice(["lt", "le", "eq", "ne"]), self.int_expr(), self.int_expr())

    # ---- structure ---------------------------------------------------------------------
    def build(self):
        r = self.r
        root = El("scxml", {"version": "1.0", "datamodel": self.dm})
        if self.dm != "null":
            nv = r.randint(0, 3)
            if nv:
                dmel = root.add(El("datamodel"))
                for i in range(nv):
                    name = "v%d" % i
                    ast = ("num", r.randint(0, 3))
                    at = {"id": name, "expr": render(ast, self.dm)}
                    if self.dm == "promela":
                        at["type"] = "int"
                    dmel.add(El("data", at, expr_ast=ast))
                    self.vars.append(name)
        self.budget = r.randint(2, self.max_states)
        self.counter = {"s": 0, "f": 0, "h": 0, "p": 0}
        if self.f["par_bias"]:
            # many regions reacting to the same few events: what the engines' conflict caches and matrices are about
            holder = root
            if r.random() < 0.4:
                holder = root.add(El("state", {"id": self.new_id("s")}))
            p = holder.add(El("parallel", {"id": self.new_id("p")}))
            completable = r.random() < self.f.get("completable_p", 0.4)     # (nearly) every region can reach a final state: parallels get done
            self.completable = completable
            self.finishing = []
            for _ in range(r.randint(2, 4)):
                reg = p.add(El("state", {"id": self.new_id("s")}))
                for _ in range(r.choice([1, 1, 2, 2, 3])):
                    if r.random() < 0.35:
                        q = reg.add(El("parallel", {"id": self.new_id("p")}))
                        for _ in range(2):
                            q.add(El("state", {"id": self.new_id("s")}))
                    elif r.random() < 0.25:
                        c = reg.add(El("state", {"id": self.new_id("s")}))
                        for _ in range(r.randint(1, 2)):
                            c.add(El("state", {"id": self.new_id("s")}))
                    else:
                        reg.add(El("state", {"id": self.new_id("s")}))
                if self.f["finals"] and r.random() < (1.0 if completable else 0.2):
                    # regions that can finish: done.state of the region, and of the (possibly nested) parallel once all have
                    reg.add(El("final", {"id": self.new_id("f")}))
                    self.finishing.append(reg)
                    for q in [c for c in reg.children if c.tag == "parallel"]:
                        for qr in q.children:
                            if r.random() < (1.0 if completable else 0.5):
                                qr.add(El("state", {"id": self.new_id("s")}))
                                qr.add(El("final", {"id": self.new_id("f")}))
                                self.finishing.append(qr)
                if self.f["history"] and r.random() < 0.2:
                    reg.add(El("history", {"id": self.new_id("h"), "type": r.choice(["shallow", "deep"])}))
            if r.random() < 0.5:
                root.add(El("state", {"id": self.new_id("s")}))
            self.budget = 0
        elif self.f["hist_bias"]:
            # nested history scopes that are left and re-entered again and again with different active descendants:
            # what remembering, restoring, snapshotting and transpiling history is about
            def compound(parent, depth):
                c = parent.add(El("state", {"id": self.new_id("s")}))
                for _ in range(r.randint(2, 3)):
                    if depth < 2 and r.random() < 0.45:
                        compound(c, depth + 1)
                    else:
                        c.add(El("state", {"id": self.new_id("s")}))
                if r.random() < (0.8 if depth == 0 else 0.55):
                    c.add(El("history", {"id": self.new_id("h"), "type": r.choice(["deep", "deep", "shallow"])}))
                if r.random() < 0.15:
                    c.add(El("history", {"id": self.new_id("h"), "type": "shallow"}))
                return c
            for _ in range(r.randint(1, 2)):
                root.add(El("state", {"id": self.new_id("s")}))
            for _ in range(r.randint(1, 2)):
                compound(root, 0)
            self.budget = 0
        else:
            n_top = r.randint(1, 3)
            for i in range(n_top):
                self.make_state(root, 1)
        if self.f["finals"] and r.random() < (0.7 if not self.f["hist_bias"] else 0.2):
            root.add(El("final", {"id": self.new_id("f")}))
        self.root = root
        states = [e for e in root.walk() if e.tag in ("state", "parallel")]
        all_targets = [e for e in root.walk() if e.tag in ("state", "parallel", "final", "history")]
        self.state_ids = [e.attrs["id"] for e in root.walk() if e.tag in ("state", "parallel", "final")]
        # initial attribute / element
        for s in [root] + [e for e in states if e.tag == "state"]:
            kids = [c for c in s.children if c.tag in ("state", "parallel", "final")]
            nonfinal = [c for c in kids if c.tag != "final"] or kids
            if not kids:
                continue
            x = r.random()
            # default entry through the state's own history: the initial transition and, while nothing is remembered, the
            # history's default transition are both taken when the state is entered
            hist = [c for c in s.children if c.tag == "history"]
            first = r.choice(hist) if hist and s is not root and r.random() < 0.4 else r.choice(nonfinal)
            if x < 0.4:
                s.attrs["initial"] = first.attrs["id"]
            elif x < 0.6 and s is not root and self.f["initial_el"]:
                ini = El("initial")
                tr = ini.add(El("transition", {"target": first.attrs["id"]}))
                self.fill_block(tr, r.randint(0, 2))
                s.children.insert(0, ini)
                ini.parent = s
        # history defaults
        for h in [e for e in root.walk() if e.tag == "history"]:
            par = h.parent
            if h.attrs.get("type") == "deep":
                cands = [e for e in par.walk() if e is not par and e.tag in ("state", "parallel", "final")]
            else:
                cands = [c for c in par.children if c.tag in ("state", "parallel", "final")]
            cands = [c for c in cands if c.tag != "final"] or cands
            tr = h.add(El("transition", {"target": r.choice(cands).attrs["id"]}))
            self.fill_block(tr, r.randint(0, 1))
        # transitions
        for s in states:
            for _ in range(r.choice([0, 1, 1, 2, 2, 3] if not (self.f["par_bias"] or self.f["hist_bias"]) else [1, 1, 2, 2, 3])):
                self.make_transition(s, all_targets)
        for reg in getattr(self, "finishing", []):
            # a way into the region's final state: mostly on "c", which nothing else in a small-alphabet chart listens to
            # except "*", and from the region itself, so that it works whichever child is active
            fin = [c for c in reg.children if c.tag == "final"]
            srcs = [c for c in reg.children if c.tag == "state"]
            if fin:
                src = reg if (r.random() < 0.7 or not srcs) else r.choice(srcs)
                t = El("transition", {"event": "c" if r.random() < 0.75 else r.choice(["a", "b", "a b"]), "target": fin[0].attrs["id"]})
                if src is reg:
                    t.attrs["type"] = "internal"   # stays inside the region; an external one would leave and re-enter the whole parallel
                src.children.insert(0, t)
                t.parent = src
        if self.f["hist_bias"]:
            # ways out of the history scopes and back in through the history pseudo-states
            hists = [e for e in root.walk() if e.tag == "history"]
            tops = [c for c in root.children if c.tag == "state"]
            outside = [c for c in tops if not [e for e in c.walk() if e.tag == "history"]] or tops
            for h in hists:
                src = r.choice(outside)
                t = El("transition", {"event": r.choice(["a", "b", "a.x", "a b"]), "target": h.attrs["id"]})
                src.children.insert(0, t)
                t.parent = src
                self.fill_block(t, r.choice([0, 0, 1]))
            inner = [e for e in root.walk() if e.tag == "state" and e.parent is not root and not [c for c in e.children if c.tag == "state"]]
            for e in r.sample(inner, min(len(inner), r.randint(1, 3))):
                t = El("transition", {"event": r.choice(["a", "b", "a b", "*"]), "target": r.choice(outside).attrs["id"]})
                e.children.insert(0, t)
                t.parent = e
        # where a state's transitions stand among its children is free: in front of the child states, document order and
        # post-fix order of the transitions differ
        for s in states:
            kids = [c for c in s.children if c.tag in ("state", "parallel", "final")]
            trs = [c for c in s.children if c.tag == "transition"]
            if kids and trs and r.random() < 0.3:
                rest = [c for c in s.children if c.tag != "transition"]
                first_kid = min(rest.index(k) for k in kids)
                s.children[:] = rest[:first_kid] + trs + rest[first_kid:]
        # onentry / onexit
        for s in [e for e in root.walk() if e.tag in ("state", "parallel", "final")]:
            for _ in range(r.choice([0, 0, 1, 1, 2])):
                blk = s.add(El("onentry"))
                self.fill_block(blk, r.randint(1, 3))
            if s.tag != "final":
                for _ in range(r.choice([0, 0, 1, 1, 2])):
                    blk = s.add(El("onexit"))
                    self.fill_block(blk, r.randint(1, 3))
        if self.f["late"] and self.dm != "null" and r.random() < 0.2:
            root.attrs["binding"] = "late"
        return root

    def new_id(self, kind):
        n = self.counter[kind]
        self.counter[kind] += 1
        return "%s%d" % (kind, n)

    def make_state(self, parent, depth):
        r = self.r
        self.budget -= 1
        can_nest = depth < self.max_depth and self.budget > 1
        x = r.random()
        if can_nest and x < 0.2 and self.f["parallel"] and self.budget >= 2:
            p = parent.add(El("parallel", {"id": self.new_id("p")}))
            for _ in range(r.randint(2, 3)):
                if self.budget <= 0:
                    break
                self.make_state(p, depth + 1)
            if len([c for c in p.children if c.tag in ("state", "parallel")]) < 1:
                self.make_state(p, depth + 1)
            if self.f["history"] and r.random() < 0.25:
                p.add(El("history", {"id": self.new_id("h"), "type": r.choice(["shallow", "deep"])}))
            return p
        s = parent.add(El("state", {"id": self.new_id("s")}))
        if can_nest and x < 0.6:
            for _ in range(r.randint(1, 3)):
                if self.budget <= 0:
                    break
                self.make_state(s, depth + 1)
            if self.f["finals"] and r.random() < 0.4:
                s.add(El("final", {"id": self.new_id("f")}))
            if self.f["history"] and r.random() < 0.35:
                s.add(El("history", {"id": self.new_id("h"), "type": r.choice(["shallow", "deep"])}))
        return s

    def straddling_targets(self, s):
        r = self.r
        below = [e for e in s.walk() if e is not s and e.tag in ("state", "parallel", "final")]
        if not below:
            return None
        reg = s
        while reg.parent is not None and reg.parent.tag != "parallel":
            reg = reg.parent
        if reg.parent is None:
            return None
        others = [c for c in reg.parent.children if c.tag in ("state", "parallel") and c is not reg]
        if not others:
            return None
        tb = r.choice([e for e in r.choice(others).walk() if e.tag in ("state", "parallel", "final")])
        ts = [r.choice(below), tb]
        r.shuffle(ts)
        return ts

    def orthogonal_targets(self):
        """two targets in different regions of one parallel (what Rec. 3.13 allows)"""
        r = self.r
        pars = [e for e in self.root.walk() if e.tag == "parallel"]
        r.shuffle(pars)
        for p in pars:
            regs = [c for c in p.children if c.tag in ("state", "parallel")]
            if len(regs) >= 2:
                a, b = r.sample(regs, 2)
                ta = r.choice([e for e in a.walk() if e.tag in ("state", "parallel", "final")])
                tb = r.choice([e for e in b.walk() if e.tag in ("state", "parallel", "final")])
                return [ta, tb]
        return None

    def make_transition(self, s, all_targets):
        r = self.r
        at = {}
        x = r.random()
        eventless = self.f["eventless"] and x < (0.22 if not (self.f["par_bias"] or self.f["hist_bias"]) else 0.08)
        if not eventless:
            d = r.choice(DESCRIPTORS if not self.f["small_alphabet"] else ["a", "b", "a", "b", "a.x", "a b", "*"])
            if d == "*" and getattr(self, "completable", False):
                d = r.choice(["a", "b"])     # a catch-all would also catch the event that finishes the regions
            if self.f["done_events"] and r.random() < 0.15:
                cands = [e for e in self.root.walk() if e.tag in ("state", "parallel") and [c for c in e.children if c.tag in ("state", "parallel", "final")]]
                if cands:
                    d = "done.state." + r.choice(cands).attrs["id"]
            at["event"] = d
        order = {id(e): n for n, e in enumerate(self.root.walk())}
        y = r.random()
        targets = None
        if self.f["targetless"] and y < (0.1 if not self.f["par_bias"] else 0.4) and not eventless:
            targets = []
        elif self.f["multitarget"] and y < 0.2 and not (eventless and self.f["par_bias"]):
            targets = self.orthogonal_targets()
        force_internal = False
        if targets is None and self.f["multitarget"] and self.f["internal"] and not eventless and r.random() < (0.12 if self.f["par_bias"] else 0.05):
            # a compound source inside a region: one target below the source, one in a sibling region, in either order
            # (type="internal" must then behave like an external transition: not every target is a descendant of the source)
            targets = self.straddling_targets(s)
            force_internal = targets is not None and r.random() < 0.7
        if targets is None:
            cands = all_targets
            if self.f["par_bias"] and not eventless and r.random() < 0.7:
                # stay inside the own region most of the time, so that transitions of different regions are compatible
                reg = s
                while reg.parent is not None and reg.parent.tag != "parallel":
                    reg = reg.parent
                local = [t for t in all_targets if t is reg or self._is_desc(t, reg)]
                if local:
                    cands = local
            if eventless:
                # forward edges only: bounds eventless chains
                cands = [t for t in all_targets if order[id(t)] > order[id(s)] and not self._is_desc(t, s)] or None
                if cands and self.f["par_bias"]:
                    # leaving the region re-enters the whole parallel and with it the source: an endless loop
                    reg = s
                    while reg.parent is not None and reg.parent.tag != "parallel":
                        reg = reg.parent
                    cands = [t for t in cands if self._is_desc(t, reg)] or None
                if cands is None:
                    return
            targets = [r.choice(cands)]
        if targets:
            at["target"] = " ".join(t.attrs["id"] for t in targets)
        if self.f["internal"] and targets and (force_internal or r.random() < 0.25):
            at["type"] = "internal"
        t = El("transition", at)
        if self.f["cond"] and (r.random() < (0.6 if eventless else 0.25)):
            ast = self.bool_expr(self.state_ids)
            t.attrs["cond"] = render(ast, self.dm)
            t.meta["cond_ast"] = ast
        # transitions come before onentry/onexit in our layout; document order among transitions matters
        s.add(t)
        self.fill_block(t, r.choice([0, 0, 1, 2]))

    def _is_desc(self, e, anc):
        p = e.parent
        while p is not None:
            if p is anc:
                return True
            p = p.parent
        return False

    # ---- executable content --------------------------------------------------------------
    def fill_block(self, blk, n, depth=0):
        for _ in range(n):
            self.add_content(blk, depth)

    def add_content(self, blk, depth):
        r = self.r
        kinds = ["raise", "raise", "log", "log"] if not self.f.get("few_raises") else ["raise", "log", "log", "log", "log", "log"]
        if self.f.get("quiet"):
            # the environment's events dominate: content mostly observes (logs, assignments), rarely raises or sends
            kinds = ["log"] * 6 + ["raise"]
        if self.f["sends"] and not (self.f.get("quiet") and r.random() < 0.8):
            kinds += ["send", "send", "cancel"] if not self.f.get("few_raises") else ["send", "cancel"]
        if self.dm != "null" and self.vars:
            kinds += ["assign", "assign"]
        if self.f["ifs"] and depth < 1:
            kinds += ["if"]
        k = r.choice(kinds)
        if k == "raise":
            blk.add(El("raise", {"event": r.choice(INT_EVENTS + ["a", "b"]) if not self.f["par_bias"] else r.choice(INT_EVENTS * 4 + ["a", "b"])}))
        elif k == "log":
            self.nlog += 1
            at = {"label": "L%d" % self.nlog}
            meta = {}
            if self.dm != "null":
                ast = self.int_expr()
                top = blk
                while top.tag in ("if", "elseif", "else"):
                    top = top.parent
                if self.dm == "lua" and top.tag == "transition" and "event" in top.attrs and top.parent.tag in ("state", "parallel", "scxml") and r.random() < 0.3:
                    # content of a transition that only an event can trigger: the event it sees must be the one consumed
                    ast = ("evname",)
                at["expr"] = render(ast, self.dm)
                meta["expr_ast"] = ast
            blk.add(El("log", at, **meta))
        elif k == "send":
            d = r.choice(DELAYS)
            at = {"event": r.choice(EXT_EVENTS)}
            if d:
                at["delay"] = "%dms" % d
            if r.random() < 0.5:
                sid = "id%d" % r.randint(0, 3)
                at["id"] = sid
                self.sendids.append(sid)
            if r.random() < 0.15:
                at["target"] = "#_internal"
                if not (self.f["delayed_internal"] and d and r.random() < 0.5):
                    at.pop("delay", None)
                    d = 0
            blk.add(El("send", at, delay=d))
        elif k == "cancel":
            blk.add(El("cancel", {"sendid": r.choice(self.sendids + ["id0", "nosuch"])}))
        elif k == "assign":
            var = r.choice(self.vars)
            ast = self.int_expr()
            # keep values small: v = (expr) stays within a few units because chains are short
            blk.add(El("assign", {"location": var, "expr": render(ast, self.dm)}, var=var, expr_ast=ast))
        elif k == "if":
            ast = self.bool_expr(self.state_ids)
            e = blk.add(El("if", {"cond": render(ast, self.dm)}, cond_ast=ast))
            self.fill_block(e, r.randint(1, 2), depth + 1)
            if r.random() < 0.4:
                ast2 = self.bool_expr(self.state_ids)
                e.add(El("elseif", {"cond": render(ast2, self.dm)}, cond_ast=ast2))
                self.fill_block(e, r.randint(1, 2), depth + 1)
            if r.random() < 0.5:
                e.add(El("else"))
                self.fill_block(e, r.randint(1, 2), depth + 1)


# ---- really failing elements (C07) ------------------------------------------------------------
BAD_EXPR = {"lua": ["1 +", "nosuchfn()", "(1)(2)"], "promela": ["1 +", "nosuchvar + 1", "7 / 0", "7 % 0"], "null": []}
BAD_GUARD = {"lua": ["1 +", "nosuchfn()", "(1)(2)"], "promela": ["1 +", "nosuchvar + 1"], "null": []}
BAD_SEND = [({"type": "nosuch-ioproc"}, "error.execution"), ({"target": "bogus-target"}, "error.execution"),
            ({"target": "#_nosuchinvoke"}, "error.communication")]
# sends whose namelist / <param> cannot be evaluated (datamodels with expressions only)
BAD_SRC = "file:///verif/build/no-such-resource.txt"    # a <data src> that cannot be fetched
BAD_SEND_DM = [({"namelist": "\"foo"}, None), ({}, "1 +"), ({}, "nosuchfn()")]


def failure_of(e, dm):
    """-> error event name if this element (as rendered) is one of the planted failing elements, else None"""
    if e.tag in ("log", "assign", "data") and e.attrs.get("expr") in BAD_EXPR.get(dm, []):
        return "error.execution"
    if e.tag == "data" and e.attrs.get("src") == BAD_SRC:
        return "error.communication"
    if e.tag in ("if", "elseif") and e.attrs.get("cond") in BAD_EXPR.get(dm, []):
        return "error.execution"
    if e.tag == "transition" and e.attrs.get("cond") in BAD_GUARD.get(dm, []):
        return "error.execution"
    if e.tag == "send":
        for (at, evn) in BAD_SEND:
            if all(e.attrs.get(k) == v for k, v in at.items()):
                return evn
        if dm in ("lua",) and e.attrs.get("namelist") == "\"foo":
            return "error.execution"
        for c in e.children:
            if c.tag == "param" and c.attrs.get("expr") in BAD_EXPR.get(dm, []) and c.attrs.get("expr") not in ("7 / 0", "7 % 0"):
                return "error.execution"
    return None


def plant_failure(root, r, dm, allow_src=False):
    """Insert one really failing element at a random position of a random executable block.  -> description or None"""
    blocks = [e for e in root.walk() if e.tag in ("onentry", "onexit") or (e.tag == "transition" and e.parent.tag not in ("history",))
              or e.tag == "if"]
    blocks = [b for b in blocks if not any(a.tag == "content" for a in _ancestors(b))]
    kinds = ["send"]
    if BAD_EXPR.get(dm):
        kinds += ["log", "assign", "if", "data"]
        kinds += ["guard"]
    kind = r.choice(kinds)
    if kind == "guard":
        # the guard of a transition cannot be evaluated: error.execution, and the transition counts as not enabled.
        # Only transitions with an event that error events do not match (the error would re-trigger the evaluation for
        # ever), and only sources without a parallel below (Appendix D evaluates the guard once per active atomic
        # descendant, the engines once per transition: with at most one such descendant both agree)
        def unmatched(t):
            return all(not name_match_desc(d, "error.execution") for d in t.attrs.get("event", "").split())
        cands = [t for t in root.walk() if t.tag == "transition" and t.attrs.get("event") and unmatched(t)
                 and t.parent.tag in ("state", "parallel") and not any(x.tag == "parallel" for x in t.parent.walk())
                 and not any(a.tag == "content" for a in _ancestors(t))]
        if not cands:
            kind = r.choice(kinds[:-1])
        else:
            t = r.choice(cands)
            t.attrs["cond"] = r.choice(BAD_GUARD[dm])
            t.meta["cond_ast"] = ("num", 0)
            return "guard"
    if kind == "data":
        dmel = [c for c in root.children if c.tag == "datamodel"]
        if not dmel:
            dmel = [El("datamodel")]
            root.children.insert(0, dmel[0])
            dmel[0].parent = root
        at = {"id": "vbad", "expr": r.choice(BAD_EXPR[dm])}
        if allow_src and r.random() < 0.25:
            # (fetched by uSCXML's URL fetcher thread through libcurl: real, if local, I/O - only where it is the point)
            at = {"id": "vbad", "src": BAD_SRC}
        if dm == "promela":
            at["type"] = "int"
        # anywhere among the other declarations, also inside a state (late binding initialises it on entry)
        homes = dmel[:1]
        if root.attrs.get("binding") == "late" or r.random() < 0.25:
            for st in [e for e in root.walk() if e.tag == "state"][:6]:
                if r.random() < 0.3:
                    sd = [c for c in st.children if c.tag == "datamodel"]
                    if not sd:
                        sd = [El("datamodel")]
                        st.children.insert(0, sd[0])
                        sd[0].parent = st
                    homes = sd[:1]
                    break
        pos = r.randint(0, len(homes[0].children))
        d = El("data", at)
        homes[0].children.insert(pos, d)
        d.parent = homes[0]
        return "data"
    if not blocks:
        return None
    blk = r.choice(blocks)
    if kind == "send":
        if BAD_EXPR.get(dm) and r.random() < 0.4:
            el = El("send", {"event": "failing"}, delay=0)
            if dm == "lua" and r.random() < 0.4:
                el.attrs["namelist"] = "\"foo"
            else:
                el.add(El("param", {"name": "p", "expr": r.choice([x for x in BAD_EXPR[dm] if x not in ("7 / 0", "7 % 0")])}))
        else:
            at, evn = r.choice(BAD_SEND)
            el = El("send", dict({"event": "failing"}, **at), delay=0)
    elif kind == "log":
        el = El("log", {"label": "FAIL", "expr": r.choice(BAD_EXPR[dm])})
    elif kind == "assign":
        var = "v0"
        el = El("assign", {"location": var, "expr": r.choice(BAD_EXPR[dm])}, var=var)
    else:
        el = El("if", {"cond": r.choice(BAD_EXPR[dm])})
        el.add(El("raise", {"event": "i"}))
        if r.random() < 0.5:
            el.add(El("else"))
            el.add(El("raise", {"event": "j"}))
    # position: anywhere among the block's executable children (for <if>: not before its own elseif/else markers)
    kids = blk.children
    pos = r.randint(0, len(kids))
    el.parent = blk
    kids.insert(pos, el)
    return kind


def name_match_desc(desc, name):
    if desc == "*":
        return True
    if desc.endswith(".*"):
        desc = desc[:-2]
    desc = desc.rstrip(".")
    return name == desc or name.startswith(desc + ".")


def _ancestors(e):
    p = e.parent
    while p is not None:
        yield p
        p = p.parent


def fail_map(root):
    dm = root.attrs.get("datamodel", "null")
    out = {}
    for e in root.walk():
        f = failure_of(e, dm)
        if f:
            out[e.xpath()] = f
    return out


def from_xml(xml):
    """Rebuild the El tree (with expression ASTs) from SCXML text produced by this generator, so that
    replay files and minimised charts need no generator state.  Expressions are re-parsed from the
    rendered text of the tiny language."""
    import xml.etree.ElementTree as ET
    ns = "{http://www.w3.org/2005/07/scxml}"
    troot = ET.fromstring(xml)
    dm = troot.get("datamodel", "null")

    def conv(e):
        el = El(e.tag.replace(ns, ""), dict(e.attrib), text=(e.text if e.text and e.text.strip() else None))
        for c in e:
            el.add(conv(c))
        return el
    root = conv(troot)
    for e in root.walk():
        if failure_of(e, dm):
            if e.tag == "assign":
                e.meta["var"] = e.attrs["location"]
            if e.tag == "send":
                e.meta["delay"] = 0
            if e.tag == "transition":
                e.meta["cond_ast"] = ("num", 0)
            continue
        if e.tag in ("transition", "if", "elseif") and "cond" in e.attrs:
            e.meta["cond_ast"] = parse_expr(e.attrs["cond"], dm)
        if e.tag in ("log", "data") and "expr" in e.attrs:
            e.meta["expr_ast"] = parse_expr(e.attrs["expr"], dm)
        if e.tag == "assign":
            e.meta["var"] = e.attrs["location"]
            e.meta["expr_ast"] = parse_expr(e.attrs["expr"], dm)
        if e.tag == "send":
            d = e.attrs.get("delay", "0ms")
            e.meta["delay"] = int(d[:-2]) if d.endswith("ms") else int(d)
    return root


def parse_expr(text, dm):
    """Parser for exactly what render() prints."""
    toks = []
    i = 0
    while i < len(text):
        c = text[i]
        if c.isspace():
            i += 1
        elif c in "()[]":
            toks.append(c)
            i += 1
        elif c == "'":
            j = text.index("'", i + 1)
            toks.append(("str", text[i + 1:j]))
            i = j + 1
        elif c.isdigit():
            j = i
            while j < len(text) and text[j].isdigit():
                j += 1
            toks.append(("num", int(text[i:j])))
            i = j
        elif text.startswith("_event.name", i):
            toks.append(("id", "_event.name"))
            i += len("_event.name")
        elif c.isalpha() or c == "_":
            j = i
            while j < len(text) and (text[j].isalnum() or text[j] == "_"):
                j += 1
            toks.append(("id", text[i:j]))
            i = j
        else:
            for op in ("<=", "==", "~=", "!=", "&&", "||", "<", "+", "-", "!"):
                if text.startswith(op, i):
                    toks.append(("op", op))
                    i += len(op)
                    break
            else:
                raise ValueError("cannot tokenise %r" % text)
    pos = [0]

    def peek():
        return toks[pos[0]] if pos[0] < len(toks) else None

    def nxt():
        t = toks[pos[0]]
        pos[0] += 1
        return t

    BIN = {"+": "add", "-": "sub", "<": "lt", "<=": "le", "==": "eq", "~=": "ne", "!=": "ne", "&&": "and", "||": "or", "and": "and", "or": "or"}

    def atom():
        t = nxt()
        if t == "(":
            a = atom()
            t2 = peek()
            if t2 == ")":
                nxt()
                return a
            op = nxt()
            opname = op[1]
            b = atom()
            assert nxt() == ")"
            return (BIN[opname], a, b)
        if t[0] == "num":
            return ("num", t[1])
        if t[0] == "op" and t[1] == "!":
            assert nxt() == "("
            a = atom()
            # allow full inner expression
            if peek() != ")":
                op = nxt()
                b = atom()
                a = (BIN[op[1]], a, b)
            assert nxt() == ")"
            return ("not", a)
        if t[0] == "id":
            if t[1] == "not":
                assert nxt() == "("
                a = atom()
                if peek() != ")":
                    op = nxt()
                    b = atom()
                    a = (BIN[op[1]], a, b)
                assert nxt() == ")"
                return ("not", a)
            if t[1] == "_event.name":
                return ("evname",)
            if t[1] == "true":
                return ("true",)
            if t[1] == "false":
                return ("false",)
            if t[1] == "In":
                assert nxt() == "("
                s = nxt()
                assert nxt() == ")"
                return ("in", s[1])
            if t[1] == "config":
                assert nxt() == "["
                s = nxt()
                assert nxt() == "]"
                return ("in", s[1])
            return ("var", t[1])
        raise ValueError("parse error in %r at %r" % (text, t))
    a = atom()
    if pos[0] != len(toks):
        raise ValueError("trailing tokens in %r" % text)
    return a
