"""C09 — Delayed events fire once, not early, in due order, unless cancelled.

Workload: charts issuing N delayed sends (ties, near ties, hour-long timers,
shared ids), cancels triggered immediately, by other timers and by harness
events at seeded simulated times.  The real BasicDelayedEventQueue runs on the
simulated libevent; the timer task and the interpreter task are interleaved by
the seeded scheduler at every mutex / simevent entry point, time advances
adversarially.  See DESIGN.md 6/C09.
"""
import json

from scx import El
import usimlib
from tracelib import *

PROP = "C09"
LEVEL = "exploration"
FLAVOUR = "plain"
TIERS = {"quick": (40000, 150), "thorough": (1500000, 3000)}
RULE_TEXT = ("one run = one generated chart (2-6 delayed sends with delays from a tie/near-tie/hour set, shared send ids, "
             "immediate / timer-triggered / harness-triggered <cancel>) executed under one seeded schedule with adversarial time advance; "
             "a run is non-trivial when at least two timers were pending together and at least one <cancel> executed while a send "
             "with its id was registered; distinct = distinct scheduler decision-sequence hashes among non-trivial runs")
ASSUMPTIONS = [
    "libevent is the simevent model (timer subset), conformance-checked against libevent 2.1.12 for the four behaviours the code relies on",
    "pre-emption only at synchronisation and simevent calls; compiler reordering / torn reads of unsynchronised flags are out of reach",
]

# ties, near ties, and far timers: an hour, just beyond 2^32 microseconds (71.6 min), a day, 2^31 ms and beyond 2^32 ms
DELAYS = [1, 2, 5, 10, 10, 11, 20, 50, 100, 1000, 3600000, 4294968, 86400000, 2147483648, 4294967297]
FAR = 3600000


class Context(object):
    def __init__(self, prop, tier, opts):
        self.opts = opts


def gen_plan(seed, k):
    rp = usimlib.substream(seed, "plan")
    rs = usimlib.substream(seed, "sched")
    dm = rp.choice(["null", "null", "lua"])
    nsend = rp.randint(2, 6)
    # scale: once in a while a session arms hundreds of timers with pairwise different durations (bounded tables,
    # counters and per-duration structures only show beyond their bound)
    bulk = rp.random() < 0.004
    bulk_delays = None
    if bulk:
        nsend = rp.randint(258, 320)
        bulk_delays = rp.sample(range(1, 700), nsend)
    ids = ["id%d" % i for i in range(nsend)]
    root = El("scxml", {"version": "1.0", "datamodel": dm, "initial": "s"})
    s = root.add(El("state", {"id": "s", "initial": "w"}))
    onentry = s.add(El("onentry"))
    sends = []
    maxd = 0
    small = rp.random() < 0.5  # cluster delays so that timers and cancels collide
    for i in range(nsend):
        d = rp.choice(DELAYS[:7]) if small else rp.choice(DELAYS)
        if bulk:
            d = bulk_delays[i]
        sid = ids[i] if rp.random() < 0.8 else rp.choice(ids)
        onentry.add(El("send", {"event": "d%d" % i, "id": sid, "delay": "%dms" % d}, role="send", idx=i, delay=d, sendid=sid))
        sends.append((i, sid, d))
        if d < FAR:
            maxd = max(maxd, d)
        if rp.random() < (0.25 if not bulk else 0.02):
            onentry.add(El("cancel", {"sendid": rp.choice(ids + ["nosuch"])}, role="cancel"))
    w = s.add(El("state", {"id": "w"}))
    # timer-triggered cancels / follow-up sends
    nextra = 0
    for (i, sid, d) in sends:
        if rp.random() < (0.5 if not bulk else 0.03):
            t = w.add(El("transition", {"event": "d%d" % i, "target": "w"}))
            for _ in range(rp.randint(1, 2)):
                if rp.random() < 0.7:
                    t.add(El("cancel", {"sendid": rp.choice(ids + ["nosuch"])}, role="cancel"))
                elif nextra < 3:
                    d2 = rp.choice(DELAYS[:8])
                    j = nsend + nextra
                    nextra += 1
                    t.add(El("send", {"event": "d%d" % j, "id": rp.choice(ids + ["x%d" % j]), "delay": "%dms" % d2}, role="send", idx=j, delay=d2))
                    maxd = max(maxd, d + d2)
    nh = rp.randint(0, 3)
    for n in range(nh):
        t = w.add(El("transition", {"event": "h.%d" % n, "target": "w"}))
        t.add(El("cancel", {"sendid": rp.choice(ids)}, role="cancel"))
        if rp.random() < 0.3:
            t.add(El("cancel", {"sendid": rp.choice(ids)}, role="cancel"))
    quit_delay = maxd + rp.choice([3, 20, 200])
    onentry.add(El("send", {"event": "quit", "id": "quit", "delay": "%dms" % quit_delay}, role="quit", delay=quit_delay))
    s.add(El("transition", {"event": "quit", "target": "f"}))
    root.add(El("final", {"id": "f"}))

    block = rp.choice([1, 7, 50, -1, -1])
    main = [{"op": "create", "i": 0, "chart": "main"}]
    actors = {"main": main}
    if nh:
        main.append({"op": "spawn", "actor": "h"})
        hops = []
        tprev = 0
        times = sorted(rp.choice([0, 1, 2, 5, 9, 10, 11, 19, 20, 21, 50, 99, 100, 101]) for _ in range(nh))
        for n, tm in enumerate(times):
            if tm > tprev:
                hops.append({"op": "sleep", "ms": tm - tprev})
                tprev = tm
            hops.append({"op": "recv", "i": 0, "name": "h.%d" % n})
        actors["h"] = hops
    main.append({"op": "run", "i": 0, "block": block, "until": ["FINISHED"], "max": (4000 if block == 1 else 1500) * (8 if bulk else 1)})
    if not bulk and rp.random() < 0.12:
        # a snapshot is taken whenever the session rests: serialize() stops and restarts the timer thread while
        # timers are pending; none of them may be lost, doubled or shifted by that
        main[-1]["snap"] = True
    pol = rs.choice(["random", "random", "sticky", "pct"])
    sched = {"seed": rs.getrandbits(31), "policy": pol,
             "sticky_p": rs.choice([0.5, 0.8, 0.95]), "pct_d": rs.randint(1, 4), "pct_horizon": rs.choice([100, 300, 800]),
             "time_adv_p": rs.choice([0, 0.02, 0.1, 0.3]),
             "spurious_p": rs.choice([0, 0, 0.01]), "stall_p": rs.choice([0, 0, 0.02]), "stall_len": rs.choice([5, 30]),
             "max_decisions": 200000 if not bulk else 3000000}
    plan = {"id": k, "seed": seed, "entropy_seed": seed & 0x7fffffff, "sched": sched,
            "charts": {"main": root.xml()}, "actors": actors}
    return plan, root


def chart_index(xml):
    """sendid per cancel xpath, delay per send, rebuilt from the XML text (so replays need no generator)."""
    import xml.etree.ElementTree as ET
    ns = "{http://www.w3.org/2005/07/scxml}"
    troot = ET.fromstring(xml)

    def conv(e, parent=None):
        el = El(e.tag.replace(ns, ""), dict(e.attrib))
        for c in e:
            el.add(conv(c))
        return el
    root = conv(troot)
    cancels = {}
    for e in root.walk():
        if e.tag == "cancel":
            cancels[e.xpath()] = e.attrs.get("sendid", "")
    return cancels


def oracle(plan, res):
    """-> (violations [(rule, detail)], info dict)"""
    v = hard_failures(res, PROP)
    info = {"nontrivial": False, "near_tie": 0, "cancel_hit_pending": 0, "cancel_after_fire": 0, "delivered": 0, "cancelled": 0}
    if res.end is None:
        return v, info
    lines = res.lines
    b = Bindings(lines)
    extq = b.ext.get("i0")
    dlyq = b.dly.get("i0")
    cancels = chart_index(plan["charts"]["main"])
    sends = {}     # uuid -> dict
    order = []
    arrivals = {}  # uuid -> [(seq,t)]
    cancel_execs = []  # (bseq, aseq, ta, sendid)
    open_cancel = {}
    finished = False
    for r in lines:
        kind = r[KIND]
        if kind == "dly<" and r[SESS] == dlyq:
            ev = r[5]
            sends[r[7]] = {"uuid": r[7], "name": ev["name"], "sendid": ev.get("sendid", ""), "delay": r[6], "t0": r[T], "seq0": r[SEQ], "t1": None, "seq1": None}
            order.append(r[7])
        elif kind == "dly>" and r[SESS] == dlyq:
            if r[6] in sends:
                sends[r[6]]["t1"] = r[T]
                sends[r[6]]["seq1"] = r[SEQ]
        elif kind == "enq<" and r[SESS] == extq:
            u = r[7]
            if u in sends:
                arrivals.setdefault(u, []).append((r[SEQ], r[T]))
        elif kind == "bxc" and r[5] in cancels:
            open_cancel[r[5]] = r[SEQ]
        elif kind == "axc" and r[5] in cancels and r[5] in open_cancel:
            cancel_execs.append((open_cancel.pop(r[5]), r[SEQ], r[T], cancels[r[5]]))
        elif kind == "st" and r[SESS] == "i0" and r[5] == "FINISHED":
            finished = True
    quit = None
    for u in order:
        if sends[u]["name"] == "quit":
            quit = sends[u]
    # rules --------------------------------------------------------------------------
    for u, arr in arrivals.items():
        s = sends[u]
        if len(arr) > 1:
            v.append(("C09.at-most-once", "send %s (sendid %s, delay %dms) delivered %d times" % (s["name"], s["sendid"], s["delay"], len(arr))))
        for (seq, t) in arr:
            if t + 0 < s["t0"] + s["delay"] * 1000:
                v.append(("C09.not-early", "send %s delay %dms issued at t=%dus delivered at t=%dus" % (s["name"], s["delay"], s["t0"], t)))
    us = [u for u in order if sends[u]["t1"] is not None]
    for i in range(len(us)):
        for j in range(len(us)):
            if i == j:
                continue
            A, B = sends[us[i]], sends[us[j]]
            dueA_late = A["t1"] + A["delay"] * 1000
            dueB_early = B["t0"] + B["delay"] * 1000
            if abs((A["t0"] + A["delay"] * 1000) - dueB_early) <= 1000 and i < j:
                info["near_tie"] += 1
            if dueA_late + 1000 < dueB_early and us[i] in arrivals and us[j] in arrivals:
                if arrivals[us[i]][0][0] > arrivals[us[j]][0][0]:
                    v.append(("C09.due-order", "send %s (due <= %dus) delivered after send %s (due >= %dus)" % (A["name"], dueA_late, B["name"], dueB_early)))
    targeted = set()
    for (bseq, aseq, ta, sid) in cancel_execs:
        for u in order:
            s = sends[u]
            if s["sendid"] != sid or s["delay"] == 0:
                continue
            if aseq > s["seq0"]:
                targeted.add(u)
            if s["seq1"] is not None and s["seq1"] < bseq:
                if u in arrivals and arrivals[u][0][0] < bseq:
                    info["cancel_after_fire"] += 1
                else:
                    info["cancel_hit_pending"] += 1
                if ta < s["t0"] + s["delay"] * 1000 and u in arrivals:
                    v.append(("C09.cancelled-delivered", "<cancel sendid=%s> completed at t=%dus, before the due time %dus of send %s, yet it was delivered at t=%dus" % (
                        sid, ta, s["t0"] + s["delay"] * 1000, s["name"], arrivals[u][0][1])))
    if finished and quit is not None and not res.failed_hard():
        qdue_early = quit["t0"] + quit["delay"] * 1000
        for u in order:
            s = sends[u]
            if s is quit or u in targeted or s["t1"] is None:
                continue
            if s["t1"] + s["delay"] * 1000 + 1000 < qdue_early and u not in arrivals:
                v.append(("C09.lost", "send %s (delay %dms, never the target of a cancel, due before the quit timer) was never delivered" % (s["name"], s["delay"])))
    info["delivered"] = len(arrivals)
    info["cancelled"] = len(targeted)
    maxpending = 0
    # timers pending together: count overlapping [seq1, arrival/cancel) roughly via delays registered before first arrival
    if len(us) >= 2 and info["cancel_hit_pending"] > 0:
        info["nontrivial"] = True
    return v, info


def evaluate(plan, usim):
    res = usim.run(plan)
    v, info = oracle(plan, res)
    return v


def run_one(ctx, usim, seed, k, acc):
    plan, root = gen_plan(seed, k)
    res = usim.run(plan)
    v, info = oracle(plan, res)
    end = res.end or {}
    acc.sim_ms += end.get("sim_ms", 0)
    acc.decisions += end.get("decisions", 0)
    acc.count("pol." + plan["sched"]["policy"])
    acc.count("probe.bulk_runs_with_more_than_256_distinct_timer_durations", 1 if plan["charts"]["main"].count("<send ") > 257 else 0)
    acc.count("fault.adversarial_time_advance", end.get("adv_time", 0))
    acc.count("fault.spurious_wakeup", end.get("spurious", 0))
    acc.count("fault.task_stall", end.get("stalls", 0))
    acc.count("fault.preemption_switches", end.get("switches", 0))
    acc.count("probe.cancel_hit_pending_send", info["cancel_hit_pending"])
    acc.count("probe.cancel_after_delivery", info["cancel_after_fire"])
    acc.count("probe.near_tie_pairs", info["near_tie"])
    acc.count("probe.event_del_waited_for_running_callback", end.get("ev_del_blocked", 0))
    acc.count("probe.loopbreak_before_loop_entered", end.get("ev_break_forgotten", 0))
    acc.count("probe.timers_fired", end.get("ev_fired", 0))
    acc.count("delivered_sends", info["delivered"])
    acc.count("cancel_targeted_sends", info["cancelled"])
    if info["nontrivial"] and end.get("sched_hash"):
        acc.hashes.add(end["sched_hash"])
    if k % 100 == 7 and not res.failed_hard():
        res2 = usim.run(plan)
        acc.recheck_n += 1
        if res2.trace_hash != res.trace_hash:
            acc.recheck_mismatch += 1
    for (rule, detail) in v:
        acc.violations.append({"rule": rule, "detail": detail, "plan": plan, "k": k})
        break
    if len(acc.samples) < 1 and info["nontrivial"] and k < 64:
        acc.samples.append({"run": k, "seed": seed, "chart": plan["charts"]["main"], "actors": plan["actors"], "sched": plan["sched"],
                            "delivered": info["delivered"], "cancel_targeted": info["cancelled"], "trace_tail": tail(res.lines, 12)})


def classify(rule, detail, plan):
    import re
    if rule.startswith("C09.deadlock[") or rule.startswith("C09.stuck[") or rule.startswith("C09.idle-forever["):
        m = re.search(r"task (\d+) '[^']*' blocked on event_(?:del|free)", detail)
        if m and re.search(r"blocked on mutex held by task %s " % m.group(1), detail):
            return "C09-cancel-blocks-in-event_del-while-callback-waits-for-queue-mutex"
    return None
