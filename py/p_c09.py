"""C09 — Delayed events fire once, not early, in due order, unless cancelled.

Workload: charts issuing N delayed sends (ties, near ties, hour-long timers,
shared ids), cancels triggered immediately, by other timers and by harness
events at seeded simulated times.  The real BasicDelayedEventQueue runs on the
simulated libevent; the timer task and the interpreter task are interleaved by
the seeded scheduler at every mutex / simevent entry point, time advances
adversarially.  See DESIGN.md 6/C09.
"""
import json

from scx import El
import usimlib
from tracelib import *

PROP = "C09"
LEVEL = "exploration"
FLAVOUR = "plain"
TIERS = {"quick": (40000, 150), "thorough": (1500000, 3000)}
RULE_TEXT = ("one run = one generated chart (2-6 delayed sends with delays from a tie/near-tie/hour set, shared send ids, "
             "immediate / timer-triggered / harness-triggered <cancel>; 10 % of the runs instead drive a BasicDelayedEventQueue directly through enqueueDelayed / cancelDelayed / cancelAllDelayed "
             "from one or two caller tasks with UUIDs from a small pool, so that an enqueue replaces a pending registration) executed under one seeded schedule with adversarial time advance; "
             "a run is non-trivial when at least two timers were pending together and at least one <cancel> executed while a send "
             "with its id was registered; distinct = distinct scheduler decision-sequence hashes among non-trivial runs")
ASSUMPTIONS = [
    "libevent is the simevent model (timer subset), conformance-checked against libevent 2.1.12 for the four behaviours the code relies on",
    "pre-emption only at synchronisation and simevent calls; compiler reordering / torn reads of unsynchronised flags are out of reach",
]

# ties, near ties, and far timers: an hour, just beyond 2^32 microseconds (71.6 min), a day, 2^31 ms and beyond 2^32 ms
DELAYS = [1, 2, 5, 10, 10, 11, 20, 50, 100, 1000, 3600000, 4294968, 86400000, 2147483648, 4294967297]
FAR = 3600000


class Context(object):
    def __init__(self, prop, tier, opts):
        self.opts = opts


DIRECT_P = 0.10


def gen_direct_plan(seed, k, rp, rs):
    """The queue behind the public DelayedEventQueue interface, driven without an interpreter: one or two caller
    tasks enqueue (also: the UUID of a registration that is still pending, which replaces it), cancel and cancel
    all, with sleeps in between; every enqueue carries a unique event name so that a delivery is attributable."""
    uuids = ["u%d" % i for i in range(rp.randint(1, 4))]
    dl = [1, 2, 5, 10, 10, 11, 20, 50, 100, 1000]
    n = [0]

    def ops_for(nops, cancels_only=False):
        ops = []
        for _ in range(nops):
            x = rp.random()
            if x < (0.0 if cancels_only else 0.5):
                ops.append({"op": "dq", "do": "enq", "q": 0, "uuid": rp.choice(uuids), "delay": rp.choice(dl), "name": "e%d" % n[0]})
                n[0] += 1
            elif x < 0.7:
                ops.append({"op": "dq", "do": "cancel", "q": 0, "uuid": rp.choice(uuids + ["nosuch"])})
            elif x < 0.73:
                ops.append({"op": "dq", "do": "cancelall", "q": 0})
            else:
                ops.append({"op": "sleep", "ms": rp.choice([1, 1, 2, 5, 9, 10, 11, 20, 50, 99])})
        return ops
    main = [{"op": "dq", "do": "new", "q": 0}]
    actors = {"main": main}
    first = ops_for(rp.randint(1, 3))
    if not any(o.get("do") == "enq" for o in first):
        first.insert(0, {"op": "dq", "do": "enq", "q": 0, "uuid": uuids[0], "delay": rp.choice(dl), "name": "e%d" % n[0]})
        n[0] += 1
    main += first
    if rp.random() < 0.4:
        main.append({"op": "spawn", "actor": "b"})
        actors["b"] = ops_for(rp.randint(1, 5), cancels_only=rp.random() < 0.3)
    main += ops_for(rp.randint(2, 8))
    if "b" in actors:
        main.append({"op": "join", "actor": "b"})
    # a last timer due after all others: what was due before it and is still missing when it arrives is lost
    # (lateness alone is legal: the timer thread may be arbitrarily slow under the adversarial scheduler)
    main.append({"op": "dq", "do": "enq", "q": 0, "uuid": "quit", "delay": 1500, "name": "quit"})
    main.append({"op": "sleep", "ms": 4000})
    if rp.random() < 0.7:
        main.append({"op": "dq", "do": "del", "q": 0})
    pol = rs.choice(["random", "random", "sticky", "pct"])
    sched = {"seed": rs.getrandbits(31), "policy": pol,
             "sticky_p": rs.choice([0.5, 0.8, 0.95]), "pct_d": rs.randint(1, 4), "pct_horizon": rs.choice([100, 300, 800]),
             "time_adv_p": rs.choice([0, 0.02, 0.1, 0.3]),
             "spurious_p": rs.choice([0, 0, 0.01]), "stall_p": rs.choice([0, 0, 0.02]), "stall_len": rs.choice([5, 30]),
             "max_decisions": 200000}
    return {"id": k, "seed": seed, "entropy_seed": seed & 0x7fffffff, "sched": sched, "direct": True,
            "charts": {}, "actors": actors}, None


def oracle_direct(plan, res):
    v = hard_failures(res, PROP)
    info = {"nontrivial": False, "near_tie": 0, "cancel_hit_pending": 0, "cancel_after_fire": 0, "delivered": 0, "cancelled": 0, "reenq_pending": 0}
    if res.end is None:
        return v, info
    regs = {}      # event name -> registration
    order = []
    cur = {}       # uuid -> name of the latest registration
    enders = []    # (bseq, aseq, ta, uuid or None, kind): cancels, cancel-alls, replacing enqueues
    open_c = {}
    fires = {}
    end_seq = None
    for r in res.lines:
        kind = r[KIND]
        if not (isinstance(r[SESS], str) and r[SESS] == "dq0"):
            continue
        if kind == "dqenq<":
            name, uuid, delay = r[5], r[6], r[7]
            regs[name] = {"name": name, "uuid": uuid, "delay": delay, "t0": r[T], "seq0": r[SEQ], "t1": None, "seq1": None}
            order.append(name)
            open_c[("enq", r[TASK], uuid)] = r[SEQ]
        elif kind == "dqenq>":
            name, uuid = r[5], r[6]
            regs[name]["t1"], regs[name]["seq1"] = r[T], r[SEQ]
            enders.append((open_c.pop(("enq", r[TASK], uuid), r[SEQ]), r[SEQ], r[T], uuid, "enqueue with the same UUID", name))
        elif kind == "dqcnl<":
            open_c[("cnl", r[TASK], r[5])] = r[SEQ]
        elif kind == "dqcnl>":
            enders.append((open_c.pop(("cnl", r[TASK], r[5]), r[SEQ]), r[SEQ], r[T], r[5], "cancelDelayed", None))
        elif kind == "dqcna<":
            open_c[("cna", r[TASK])] = r[SEQ]
        elif kind == "dqcna>":
            enders.append((open_c.pop(("cna", r[TASK]), r[SEQ]), r[SEQ], r[T], None, "cancelAllDelayed", None))
        elif kind == "dqdel<":
            if end_seq is None:
                end_seq = (r[SEQ], r[T])
        elif kind == "dqfire":
            fires.setdefault(r[5], []).append((r[SEQ], r[T], r[6]))
    for name, fl in fires.items():
        R = regs.get(name)
        if R is None:
            v.append(("C09.at-most-once", "delivery of an event %s that was never enqueued" % name))
            continue
        if len(fl) > 1:
            v.append(("C09.at-most-once", "event %s (uuid %s, delay %dms) delivered %d times" % (name, R["uuid"], R["delay"], len(fl))))
        for (seq, t, u) in fl:
            if t < R["t0"] + R["delay"] * 1000:
                v.append(("C09.not-early", "event %s (uuid %s) enqueued at t=%dus with delay %dms delivered at t=%dus" % (name, R["uuid"], R["t0"], R["delay"], t)))
            if u != R["uuid"]:
                v.append(("C09.at-most-once", "event %s enqueued under uuid %s delivered under uuid %s" % (name, R["uuid"], u)))
    targeted = set()
    for (bseq, aseq, ta, uuid, what, newname) in enders:
        for name in order:
            R = regs[name]
            if name == newname or (uuid is not None and R["uuid"] != uuid):
                continue
            if aseq > R["seq0"]:
                targeted.add(name)
            if R["seq1"] is not None and R["seq1"] < bseq:
                fired_before = name in fires and fires[name][0][0] < bseq
                if fired_before:
                    info["cancel_after_fire"] += 1
                else:
                    info["cancel_hit_pending"] += 1
                    if newname:
                        info["reenq_pending"] += 1
                if ta < R["t0"] + R["delay"] * 1000 and name in fires:
                    v.append(("C09.cancelled-delivered", "%s of uuid %s completed at t=%dus, before the due time %dus of event %s, yet it was delivered at t=%dus" % (
                        what, R["uuid"], ta, R["t0"] + R["delay"] * 1000, name, fires[name][0][1])))
    done = [nm for nm in order if regs[nm]["t1"] is not None]
    for a in done:
        for b in done:
            if a == b:
                continue
            A, B = regs[a], regs[b]
            if abs((A["t0"] + A["delay"] * 1000) - (B["t0"] + B["delay"] * 1000)) <= 1000 and a < b:
                info["near_tie"] += 1
            if A["t1"] + A["delay"] * 1000 + 1000 < B["t0"] + B["delay"] * 1000 and a in fires and b in fires and fires[a][0][0] > fires[b][0][0]:
                v.append(("C09.due-order", "event %s (due <= %dus) delivered after event %s (due >= %dus)" % (a, A["t1"] + A["delay"] * 1000, b, B["t0"] + B["delay"] * 1000)))
    Q = regs.get("quit")
    if not res.failed_hard() and Q is not None and "quit" in fires and "quit" not in targeted:
        for name in done:
            R = regs[name]
            if name in targeted or name in fires or name == "quit":
                continue
            if R["t1"] + R["delay"] * 1000 + 1000 < Q["t0"] + Q["delay"] * 1000:
                v.append(("C09.lost", "event %s (uuid %s, delay %dms, never cancelled or replaced, due before the last timer) was never delivered although the last timer was" % (
                    name, R["uuid"], R["delay"])))
    info["delivered"] = len(fires)
    info["cancelled"] = len(targeted)
    if len(done) >= 2 and info["cancel_hit_pending"] > 0:
        info["nontrivial"] = True
    return v, info


def gen_plan(seed, k):
    rp = usimlib.substream(seed, "plan")
    rs = usimlib.substream(seed, "sched")
    if usimlib.substream(seed, "mode").random() < DIRECT_P:
        return gen_direct_plan(seed, k, rp, rs)
    dm = rp.choice(["null", "null", "lua"])
    nsend = rp.randint(2, 6)
    # scale: once in a while a session arms hundreds of timers with pairwise different durations (bounded tables,
    # counters and per-duration structures only show beyond their bound)
    bulk = rp.random() < 0.004
    bulk_delays = None
    if bulk:
        nsend = rp.randint(258, 320)
        bulk_delays = rp.sample(range(1, 700), nsend)
    ids = ["id%d" % i for i in range(nsend)]
    root = El("scxml", {"version": "1.0", "datamodel": dm, "initial": "s"})
    s = root.add(El("state", {"id": "s", "initial": "w"}))
    onentry = s.add(El("onentry"))
    sends = []
    maxd = 0
    small = rp.random() < 0.5  # cluster delays so that timers and cancels collide
    for i in range(nsend):
        d = rp.choice(DELAYS[:7]) if small else rp.choice(DELAYS)
        if bulk:
            d = bulk_delays[i]
        sid = ids[i] if rp.random() < 0.8 else rp.choice(ids)
        onentry.add(El("send", {"event": "d%d" % i, "id": sid, "delay": "%dms" % d}, role="send", idx=i, delay=d, sendid=sid))
        sends.append((i, sid, d))
        if d < FAR:
            maxd = max(maxd, d)
        if rp.random() < (0.25 if not bulk else 0.02):
            onentry.add(El("cancel", {"sendid": rp.choice(ids + ["nosuch"])}, role="cancel"))
    w = s.add(El("state", {"id": "w"}))
    # timer-triggered cancels / follow-up sends
    nextra = 0
    for (i, sid, d) in sends:
        if rp.random() < (0.5 if not bulk else 0.03):
            t = w.add(El("transition", {"event": "d%d" % i, "target": "w"}))
            for _ in range(rp.randint(1, 2)):
                if rp.random() < 0.7:
                    t.add(El("cancel", {"sendid": rp.choice(ids + ["nosuch"])}, role="cancel"))
                elif nextra < 3:
                    d2 = rp.choice(DELAYS[:8])
                    j = nsend + nextra
                    nextra += 1
                    t.add(El("send", {"event": "d%d" % j, "id": rp.choice(ids + ["x%d" % j]), "delay": "%dms" % d2}, role="send", idx=j, delay=d2))
                    maxd = max(maxd, d + d2)
    nh = rp.randint(0, 3)
    for n in range(nh):
        t = w.add(El("transition", {"event": "h.%d" % n, "target": "w"}))
        t.add(El("cancel", {"sendid": rp.choice(ids)}, role="cancel"))
        if rp.random() < 0.3:
            t.add(El("cancel", {"sendid": rp.choice(ids)}, role="cancel"))
    quit_delay = maxd + rp.choice([3, 20, 200])
    onentry.add(El("send", {"event": "quit", "id": "quit", "delay": "%dms" % quit_delay}, role="quit", delay=quit_delay))
    s.add(El("transition", {"event": "quit", "target": "f"}))
    root.add(El("final", {"id": "f"}))

    block = rp.choice([1, 7, 50, -1, -1])
    main = [{"op": "create", "i": 0, "chart": "main"}]
    actors = {"main": main}
    if nh:
        main.append({"op": "spawn", "actor": "h"})
        hops = []
        tprev = 0
        times = sorted(rp.choice([0, 1, 2, 5, 9, 10, 11, 19, 20, 21, 50, 99, 100, 101]) for _ in range(nh))
        for n, tm in enumerate(times):
            if tm > tprev:
                hops.append({"op": "sleep", "ms": tm - tprev})
                tprev = tm
            hops.append({"op": "recv", "i": 0, "name": "h.%d" % n})
        actors["h"] = hops
    main.append({"op": "run", "i": 0, "block": block, "until": ["FINISHED"], "max": (4000 if block == 1 else 1500) * (8 if bulk else 1)})
    if not bulk and rp.random() < 0.12:
        # a snapshot is taken whenever the session rests: serialize() stops and restarts the timer thread while
        # timers are pending; none of them may be lost, doubled or shifted by that
        main[-1]["snap"] = True
    pol = rs.choice(["random", "random", "sticky", "pct"])
    sched = {"seed": rs.getrandbits(31), "policy": pol,
             "sticky_p": rs.choice([0.5, 0.8, 0.95]), "pct_d": rs.randint(1, 4), "pct_horizon": rs.choice([100, 300, 800]),
             "time_adv_p": rs.choice([0, 0.02, 0.1, 0.3]),
             "spurious_p": rs.choice([0, 0, 0.01]), "stall_p": rs.choice([0, 0, 0.02]), "stall_len": rs.choice([5, 30]),
             "max_decisions": 200000 if not bulk else 3000000}
    plan = {"id": k, "seed": seed, "entropy_seed": seed & 0x7fffffff, "sched": sched,
            "charts": {"main": root.xml()}, "actors": actors}
    return plan, root


def chart_index(xml):
    """sendid per cancel xpath, delay per send, rebuilt from the XML text (so replays need no generator)."""
    import xml.etree.ElementTree as ET
    ns = "{http://www.w3.org/2005/07/scxml}"
    troot = ET.fromstring(xml)

    def conv(e, parent=None):
        el = El(e.tag.replace(ns, ""), dict(e.attrib))
        for c in e:
            el.add(conv(c))
        return el
    root = conv(troot)
    cancels = {}
    for e in root.walk():
        if e.tag == "cancel":
            cancels[e.xpath()] = e.attrs.get("sendid", "")
    return cancels


def oracle(plan, res):
    """-> (violations [(rule, detail)], info dict)"""
    if plan.get("direct"):
        return oracle_direct(plan, res)
    v = hard_failures(res, PROP)
    info = {"nontrivial": False, "near_tie": 0, "cancel_hit_pending": 0, "cancel_after_fire": 0, "delivered": 0, "cancelled": 0}
    if res.end is None:
        return v, info
    lines = res.lines
    b = Bindings(lines)
    extq = b.ext.get("i0")
    dlyq = b.dly.get("i0")
    cancels = chart_index(plan["charts"]["main"])
    sends = {}     # uuid -> dict
    order = []
    arrivals = {}  # uuid -> [(seq,t)]
    cancel_execs = []  # (bseq, aseq, ta, sendid)
    open_cancel = {}
    finished = False
    for r in lines:
        kind = r[KIND]
        if kind == "dly<" and r[SESS] == dlyq:
            ev = r[5]
            sends[r[7]] = {"uuid": r[7], "name": ev["name"], "sendid": ev.get("sendid", ""), "delay": r[6], "t0": r[T], "seq0": r[SEQ], "t1": None, "seq1": None}
            order.append(r[7])
        elif kind == "dly>" and r[SESS] == dlyq:
            if r[6] in sends:
                sends[r[6]]["t1"] = r[T]
                sends[r[6]]["seq1"] = r[SEQ]
        elif kind == "enq<" and r[SESS] == extq:
            u = r[7]
            if u in sends:
                arrivals.setdefault(u, []).append((r[SEQ], r[T]))
        elif kind == "bxc" and r[5] in cancels:
            open_cancel[r[5]] = r[SEQ]
        elif kind == "axc" and r[5] in cancels and r[5] in open_cancel:
            cancel_execs.append((open_cancel.pop(r[5]), r[SEQ], r[T], cancels[r[5]]))
        elif kind == "st" and r[SESS] == "i0" and r[5] == "FINISHED":
            finished = True
    quit = None
    for u in order:
        if sends[u]["name"] == "quit":
            quit = sends[u]
    # rules --------------------------------------------------------------------------
    for u, arr in arrivals.items():
        s = sends[u]
        if len(arr) > 1:
            v.append(("C09.at-most-once", "send %s (sendid %s, delay %dms) delivered %d times" % (s["name"], s["sendid"], s["delay"], len(arr))))
        for (seq, t) in arr:
            if t + 0 < s["t0"] + s["delay"] * 1000:
                v.append(("C09.not-early", "send %s delay %dms issued at t=%dus delivered at t=%dus" % (s["name"], s["delay"], s["t0"], t)))
    us = [u for u in order if sends[u]["t1"] is not None]
    for i in range(len(us)):
        for j in range(len(us)):
            if i == j:
                continue
            A, B = sends[us[i]], sends[us[j]]
            dueA_late = A["t1"] + A["delay"] * 1000
            dueB_early = B["t0"] + B["delay"] * 1000
            if abs((A["t0"] + A["delay"] * 1000) - dueB_early) <= 1000 and i < j:
                info["near_tie"] += 1
            if dueA_late + 1000 < dueB_early and us[i] in arrivals and us[j] in arrivals:
                if arrivals[us[i]][0][0] > arrivals[us[j]][0][0]:
                    v.append(("C09.due-order", "send %s (due <= %dus) delivered after send %s (due >= %dus)" % (A["name"], dueA_late, B["name"], dueB_early)))
    targeted = set()
    for (bseq, aseq, ta, sid) in cancel_execs:
        for u in order:
            s = sends[u]
            if s["sendid"] != sid or s["delay"] == 0:
                continue
            if aseq > s["seq0"]:
                targeted.add(u)
            if s["seq1"] is not None and s["seq1"] < bseq:
                if u in arrivals and arrivals[u][0][0] < bseq:
                    info["cancel_after_fire"] += 1
                else:
                    info["cancel_hit_pending"] += 1
                if ta < s["t0"] + s["delay"] * 1000 and u in arrivals:
                    v.append(("C09.cancelled-delivered", "<cancel sendid=%s> completed at t=%dus, before the due time %dus of send %s, yet it was delivered at t=%dus" % (
                        sid, ta, s["t0"] + s["delay"] * 1000, s["name"], arrivals[u][0][1])))
    if finished and quit is not None and not res.failed_hard():
        qdue_early = quit["t0"] + quit["delay"] * 1000
        for u in order:
            s = sends[u]
            if s is quit or u in targeted or s["t1"] is None:
                continue
            if s["t1"] + s["delay"] * 1000 + 1000 < qdue_early and u not in arrivals:
                v.append(("C09.lost", "send %s (delay %dms, never the target of a cancel, due before the quit timer) was never delivered" % (s["name"], s["delay"])))
    info["delivered"] = len(arrivals)
    info["cancelled"] = len(targeted)
    maxpending = 0
    # timers pending together: count overlapping [seq1, arrival/cancel) roughly via delays registered before first arrival
    if len(us) >= 2 and info["cancel_hit_pending"] > 0:
        info["nontrivial"] = True
    return v, info


def evaluate(plan, usim):
    res = usim.run(plan)
    v, info = oracle(plan, res)
    return v


def run_one(ctx, usim, seed, k, acc):
    plan, root = gen_plan(seed, k)
    res = usim.run(plan)
    v, info = oracle(plan, res)
    end = res.end or {}
    acc.sim_ms += end.get("sim_ms", 0)
    acc.decisions += end.get("decisions", 0)
    acc.count("pol." + plan["sched"]["policy"])
    acc.count("probe.bulk_runs_with_more_than_256_distinct_timer_durations", 1 if plan["charts"].get("main", "").count("<send ") > 257 else 0)
    acc.count("probe.direct_queue_runs", 1 if plan.get("direct") else 0)
    acc.count("probe.direct_enqueue_replaced_pending_registration", info.get("reenq_pending", 0))
    acc.count("fault.adversarial_time_advance", end.get("adv_time", 0))
    acc.count("fault.spurious_wakeup", end.get("spurious", 0))
    acc.count("fault.task_stall", end.get("stalls", 0))
    acc.count("fault.preemption_switches", end.get("switches", 0))
    acc.count("probe.cancel_hit_pending_send", info["cancel_hit_pending"])
    acc.count("probe.cancel_after_delivery", info["cancel_after_fire"])
    acc.count("probe.near_tie_pairs", info["near_tie"])
    acc.count("probe.event_del_waited_for_running_callback", end.get("ev_del_blocked", 0))
    acc.count("probe.loopbreak_before_loop_entered", end.get("ev_break_forgotten", 0))
    acc.count("probe.timers_fired", end.get("ev_fired", 0))
    acc.count("delivered_sends", info["delivered"])
    acc.count("cancel_targeted_sends", info["cancelled"])
    if info["nontrivial"] and end.get("sched_hash"):
        acc.hashes.add(end["sched_hash"])
    if k % 100 == 7 and not res.failed_hard():
        res2 = usim.run(plan)
        acc.recheck_n += 1
        if res2.trace_hash != res.trace_hash:
            acc.recheck_mismatch += 1
    for (rule, detail) in v:
        acc.violations.append({"rule": rule, "detail": detail, "plan": plan, "k": k})
        break
    if len(acc.samples) < 1 and info["nontrivial"] and k < 64:
        acc.samples.append({"run": k, "seed": seed, "chart": plan["charts"].get("main", "(direct queue run)"), "actors": plan["actors"], "sched": plan["sched"],
                            "delivered": info["delivered"], "cancel_targeted": info["cancelled"], "trace_tail": tail(res.lines, 12)})


def classify(rule, detail, plan):
    import re
    if rule.startswith("C09.deadlock[") or rule.startswith("C09.stuck[") or rule.startswith("C09.idle-forever["):
        m = re.search(r"task (\d+) '[^']*' blocked on event_(?:del|free)", detail)
        if m and re.search(r"blocked on mutex held by task %s " % m.group(1), detail):
            return "C09-cancel-blocks-in-event_del-while-callback-waits-for-queue-mutex"
    return None
