"""Shared workload for the piggy-backing properties (C02, C13, C03, C07, C14):
generated chart + event history + optional controller actions."""
import gen
import usimlib
import p_c01


def chart_and_history(seed, k, engine=None, bias=None, adversarial_p=0.3, dm=None, rec_micro=True, max_states=10, features=None, plant_p=0.0):
    rp = usimlib.substream(seed, "plan")
    rs = usimlib.substream(seed, "sched")
    feats = dict(features or {})
    root = p_c01.gen_chart(rp, dm, feats, max_states=max_states)
    par = bool((root.meta or {}).get("par_bias"))
    planted = None
    if rp.random() < plant_p:
        planted = gen.plant_failure(root, rp, root.attrs.get("datamodel", "null"))
    eng = engine or rp.choice(["large", "fast"])
    create = {"op": "create", "i": 0, "chart": "main", "engine": eng, "rec_micro": rec_micro}
    if rp.random() < adversarial_p:
        # stepper + controller under the seeded scheduler
        ctl = []
        for _ in range(rp.randint(0, 8) if not par else rp.randint(4, 16)):
            x = rp.random()
            if x < 0.3:
                ctl.append({"op": "sleep", "ms": rp.choice([1, 2, 5, 10, 11, 30])})
            elif x < 0.4:
                ctl.append({"op": "yield"})
            else:
                ctl.append({"op": "recv", "i": 0, "name": rp.choice(gen.EXT_EVENTS + ["a", "b", "zz"]) if not par else rp.choice(["a", "b", "a", "b", "a.x", "c"])})
        ctl.append({"op": "sleep", "ms": rp.choice([1, 20, 70])})
        ctl.append({"op": "cancel", "i": 0})
        actors = {"main": [create, {"op": "validate", "i": 0}, {"op": "spawn", "actor": "stepper"}, {"op": "spawn", "actor": "ctl"}],
                  "stepper": [{"op": "run", "i": 0, "block": rp.choice([-1, 20, 3]), "until": ["FINISHED"], "max": 400}],
                  "ctl": ctl}
        sched = {"seed": rs.getrandbits(31), "policy": rs.choice(["random", "sticky", "pct"]), "sticky_p": rs.choice([0.5, 0.8, 0.95]),
                 "pct_d": rs.randint(1, 4), "pct_horizon": rs.choice([100, 400]), "time_adv_p": rs.choice([0, 0.02, 0.1]),
                 "spurious_p": rs.choice([0, 0.01]), "stall_p": rs.choice([0, 0.02]), "stall_len": 20, "max_decisions": 400000}
        mode = "adversarial"
    else:
        actors = {"main": [create, {"op": "validate", "i": 0}] + p_c01.history_ops(rp, many=(True if par and rp.random() < 0.8 else None))}
        sched = {"seed": seed & 0x7fffffff, "policy": "nonpreempt", "max_decisions": 400000}
        mode = "det"
    return {"id": k, "seed": seed, "step_budget": 200, "entropy_seed": seed & 0x7fffffff, "mode": mode, "engine": eng, "sched": sched, "planted": planted,
            "charts": {"main": root.xml()}, "actors": actors}


def common_counts(acc, plan, end):
    acc.sim_ms += end.get("sim_ms", 0)
    acc.decisions += end.get("decisions", 0)
    acc.count("pol." + plan["sched"]["policy"])
    acc.count("engine." + plan.get("engine", "default"))
    acc.count("mode." + plan.get("mode", "det"))
    acc.count("fault.adversarial_time_advance", end.get("adv_time", 0))
    acc.count("fault.spurious_wakeup", end.get("spurious", 0))
    acc.count("fault.task_stall", end.get("stalls", 0))
    acc.count("fault.preemption_switches", end.get("switches", 0))
