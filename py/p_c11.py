"""C11 — Invoked sessions start, communicate and stop as specified.

Parent/child pairs (child finishing immediately / after a delay / on a parent
event / never; parent leaving the invoking state on a timer, a child event, a
harness event or never; #_parent, #_<invokeid> and autoforward traffic;
finalize) with parent stepper, child thread and both timer threads interleaved
by the seeded scheduler.  See DESIGN.md 6/C11.
"""
import json
import re
import xml.etree.ElementTree as ET

from scx import El
import gen
import usimlib
from tracelib import *

PROP = "C11"
LEVEL = "exploration"
FLAVOUR = "plain"
TIERS = {"quick": (25000, 150), "thorough": (1000000, 3000)}
RULE_TEXT = ("one run = one generated parent/child pair and one harness plan (forwarded events, leave / again / quit at seeded simulated times) "
             "under one seeded schedule over parent stepper, child thread (USCXMLInvoker::run) and both timer threads; non-trivial = the child "
             "session was started and the parent left the invoking state, or a done.invoke was processed; distinct = distinct scheduler "
             "decision-sequence hashes among non-trivial runs")
ASSUMPTIONS = [
    "the invoker's unsynchronised flags (_isActive/_isStarted) change only between decision points of the simulator; torn reads are out of reach",
    "libevent is the simevent model",
]


class Context(object):
    def __init__(self, prop, tier, opts):
        self.opts = opts


def gen_plan(seed, k):
    rp = usimlib.substream(seed, "plan")
    rs = usimlib.substream(seed, "sched")
    pdm = rp.choice(["lua", "lua", "null"])
    cdm = rp.choice(["null", "lua"])
    # ---- child
    child = El("scxml", {"version": "1.0", "datamodel": cdm, "initial": "c0", "name": "kidchart"})
    c0 = child.add(El("state", {"id": "c0"}))
    coe = c0.add(El("onentry"))
    child_mode = rp.choice(["immediate", "timer", "token", "never"])
    nsend = rp.randint(0, 3)
    for i in range(nsend):
        at = {"event": "c.%d" % i, "target": "#_parent"}
        if rp.random() < 0.3:
            at["delay"] = "%dms" % rp.choice([1, 5, 10])
        coe.add(El("send", at))
    if child_mode == "timer":
        coe.add(El("send", {"event": "ct", "delay": "%dms" % rp.choice([1, 5, 10, 30])}))
        c0.add(El("transition", {"event": "ct", "target": "cf"}))
    elif child_mode == "token":
        c0.add(El("transition", {"event": "tok", "target": "cf"}))
    elif child_mode == "immediate":
        c0.add(El("transition", {"target": "cf"}))
    c1 = child.add(El("state", {"id": "c1"}))
    c0.add(El("transition", {"event": "fwd", "target": "c0b"}))
    c0b = child.add(El("state", {"id": "c0b"}))
    c0b.add(El("transition", {"event": "fwd", "target": "c0"}))
    if child_mode in ("timer",):
        c0b.add(El("transition", {"event": "ct", "target": "cf"}))
    if child_mode == "token":
        c0b.add(El("transition", {"event": "tok", "target": "cf"}))
    if rp.random() < 0.5:
        c0.add(El("onexit", children=[El("send", {"event": "c.exit", "target": "#_parent"})]))
    cf = child.add(El("final", {"id": "cf"}))
    if rp.random() < 0.3:
        cf.add(El("onentry", children=[El("send", {"event": "c.final", "target": "#_parent"})]))
    # ---- parent
    root = El("scxml", {"version": "1.0", "datamodel": pdm, "initial": "top", "name": "parent"})
    if pdm == "lua":
        root.add(El("datamodel", children=[El("data", {"id": "fin", "expr": "0"})]))
    top = root.add(El("state", {"id": "top", "initial": rp.choice(["pre", "inv"])}))
    pre = top.add(El("state", {"id": "pre"}))
    pre.add(El("transition", {"event": "start", "target": "inv"}))
    inv = top.add(El("state", {"id": "inv", "initial": "iw"}))
    ioe = inv.add(El("onentry"))
    if child_mode == "token":
        at = {"event": "tok", "target": "#_kid"}
        if rp.random() < 0.7:
            at["delay"] = "%dms" % rp.choice([1, 5, 20])
        ioe.add(El("send", at))
    if child_mode == "token" and rp.random() < 0.5:
        # a parting shot: the invoking state's onexit (which runs before the invocation is cancelled) sends the child the
        # event that would finish it, so the child is cancelled with a non-empty queue
        inv.add(El("onexit", children=[El("send", {"event": "tok", "target": "#_kid"})]))
    leave_mode = rp.choice(["done", "timer", "harness", "child-event", "never"])
    if leave_mode == "timer":
        ioe.add(El("send", {"event": "tleave", "delay": "%dms" % rp.choice([1, 5, 10, 30]), "id": "tl"}))
    invoke = inv.add(El("invoke", {"type": "scxml", "id": "kid"}))
    autofwd = rp.random() < 0.5
    if autofwd:
        invoke.attrs["autoforward"] = "true"
    invoke.add(El("content", children=[child]))
    if rp.random() < 0.35:
        # a second invocation in the same state that finishes by itself: its done.invoke.wrk is one more external event
        # of the parent (and, with autoforward, of the first child)
        wrk = El("scxml", {"version": "1.0", "datamodel": "null", "initial": "w0", "name": "worker"})
        w0 = wrk.add(El("state", {"id": "w0"}))
        if rp.random() < 0.5:
            w0.add(El("onentry", children=[El("send", {"event": "wt", "delay": "%dms" % rp.choice([1, 3, 8])})]))
            w0.add(El("transition", {"event": "wt", "target": "wf"}))
        else:
            w0.add(El("transition", {"target": "wf"}))
        wrk.add(El("final", {"id": "wf"}))
        # in the same state, or in the enclosing one (two invoking states active at once)
        whome = inv if rp.random() < 0.5 else top
        winv = whome.add(El("invoke", {"type": "scxml", "id": "wrk"}))
        winv.add(El("content", children=[wrk]))
        if whome is top and rp.random() < 0.6:
            # ... and one that does not finish by itself, so that it is still running when the session ends
            for c in list(w0.children):
                w0.children.remove(c)
    has_finalize = rp.random() < 0.7
    if has_finalize:
        fz = invoke.add(El("finalize"))
        if pdm == "lua":
            fz.add(El("assign", {"location": "fin", "expr": "fin + 1"}))
        else:
            fz.add(El("log", {"label": "finalize"}))
    iw = inv.add(El("state", {"id": "iw"}))
    tch = iw.add(El("transition", {"event": "c", "target": "iw"}))
    if pdm == "lua":
        tch.add(El("log", {"label": "fin", "expr": "fin"}))
    if leave_mode == "done":
        inv.add(El("transition", {"event": "done.invoke.kid", "target": "after"}))
    elif leave_mode == "timer":
        inv.add(El("transition", {"event": "tleave", "target": "after"}))
    elif leave_mode == "child-event":
        inv.add(El("transition", {"event": "c.0 c.exit", "target": "after"}))
    inv.add(El("transition", {"event": "leave", "target": "after"}))
    if rp.random() < 0.3:
        # exit and re-entry of the invoking state inside one macrostep
        inv.add(El("transition", {"event": "bounce", "target": "mid"}))
        mid = top.add(El("state", {"id": "mid"}))
        mid.add(El("transition", {"target": "inv"}))
    after = top.add(El("state", {"id": "after"}))
    after.add(El("transition", {"event": "again", "target": "inv"}))
    top.add(El("transition", {"event": "quit", "target": "f"}))
    root.add(El("final", {"id": "f"}))

    # ---- harness plan
    hops = []
    names = ["start", "fwd.0", "fwd.1", "fwd.2", "leave", "again", "bounce", "start", "fwd.3"]
    nf = 0
    for _ in range(rp.randint(1, 8)):
        r = rp.random()
        if r < 0.35:
            hops.append({"op": "sleep", "ms": rp.choice([1, 2, 5, 9, 10, 11, 30])})
        elif r < 0.45:
            hops.append({"op": "yield"})
        else:
            n = rp.choice(names)
            if n.startswith("fwd"):
                n = "fwd.%d" % nf
                nf += 1
            hops.append({"op": "recv", "i": 0, "name": n})
    quiesce = rp.random() < 0.6
    if quiesce:
        hops.append({"op": "sleep", "ms": 100})
        hops.append({"op": "settle"})
    if rp.random() < 0.3:
        hops.append({"op": "cancel", "i": 0})     # the session is cancelled with whatever is still active and invoked
    else:
        hops.append({"op": "recv", "i": 0, "name": "quit"})
    block = rp.choice([-1, -1, 20, 3])
    actors = {"main": [{"op": "create", "i": 0, "chart": "main", "engine": rp.choice(["default", "large", "fast"])},
                       {"op": "spawn", "actor": "stepper"}, {"op": "spawn", "actor": "h"}],
              "stepper": [{"op": "run", "i": 0, "block": block, "until": ["FINISHED"], "max": 4000}],
              "h": hops}
    sched = {"seed": rs.getrandbits(31), "policy": rs.choice(["random", "random", "sticky", "pct"]), "sticky_p": rs.choice([0.5, 0.8, 0.95]),
             "pct_d": rs.randint(1, 5), "pct_horizon": rs.choice([100, 400, 1500]),
             "time_adv_p": rs.choice([0, 0.02, 0.1]), "spurious_p": rs.choice([0, 0, 0.02]),
             "stall_p": rs.choice([0, 0, 0.02]), "stall_len": rs.choice([5, 40]), "max_decisions": 400000}
    return {"id": k, "seed": seed, "entropy_seed": seed & 0x7fffffff, "sched": sched, "quiesce": quiesce,
            "charts": {"main": root.xml()}, "actors": actors}


NS = "{http://www.w3.org/2005/07/scxml}"


def chart_facts(xml):
    r = ET.fromstring(xml)
    f = {"autofwd": False, "finalize": False, "fin_assign": False}
    for inv in r.iter(NS + "invoke"):
        f["autofwd"] = inv.get("autoforward") == "true"
        fz = inv.find(NS + "finalize")
        if fz is not None and len(list(fz)):
            f["finalize"] = True
            f["fin_assign"] = fz.find(NS + "assign") is not None
        break
    return f


def oracle(plan, res):
    v = hard_failures(res, PROP)
    info = {"nontrivial": False, "invocations": 0, "done": 0, "uninvoked_running_child": 0, "reentry_same_macrostep": 0}
    if res.end is None:
        return v, info
    lines = res.lines
    facts = chart_facts(plan["charts"]["main"])
    b = Bindings(lines)
    pext = b.ext.get("i0")
    # child sessions in order of appearance
    children = [s for s in sorted(b.invokeid, key=lambda s: (len(s), s)) if s.startswith("c") and b.invokeid[s] == "kid"]
    # ---- invocation bookkeeping on the parent's stream
    active = False
    invoked = False
    pending_exit = False
    n_aiv = n_aun = 0
    inv_seq = []      # (aiv seq, aun seq or None)
    other_inv = {}
    completed = False
    for r in lines:
        if r[SESS] != "i0":
            continue
        kd = r[KIND]
        if kd == "bes" and r[5] == "inv":
            if pending_exit:
                info["reentry_same_macrostep"] += 1
            active = True
        elif kd == "bxs" and r[5] == "inv":
            active = False
            if invoked:
                pending_exit = True
        elif kd in ("aiv", "aun") and len(r) > 6 and r[6] != "kid":
            # the sibling invocation "wrk": a source of done.invoke.wrk, and it must be cancelled before the session completes
            other_inv[r[6]] = other_inv.get(r[6], 0) + (1 if kd == "aiv" else -1)
            continue
        elif kd == "aiv":
            n_aiv += 1
            if invoked:
                v.append(("C11.invoke-once", "invoke started again (afterInvoking #%d at seq %d) while the previous invocation was never cancelled" % (n_aiv, r[SEQ])))
            invoked = True
            inv_seq.append([r[SEQ], None])
        elif kd == "aun":
            n_aun += 1
            if not invoked:
                v.append(("C11.uninvoke-once", "afterUninvoking at seq %d without a running invocation" % r[SEQ]))
            invoked = False
            pending_exit = False
            if inv_seq and inv_seq[-1][1] is None:
                inv_seq[-1][1] = r[SEQ]
        elif kd == "stb":
            if active and not invoked:
                v.append(("C11.invoke-once", "macrostep ended (seq %d) with the invoking state active but no invocation started" % r[SEQ]))
            if pending_exit:
                v.append(("C11.uninvoke-once", "the invoking state was exited but the invocation was not cancelled by the end of the macrostep (seq %d)" % r[SEQ]))
                pending_exit = False
            if not active and invoked:
                v.append(("C11.uninvoke-once", "macrostep ended (seq %d) with the invocation still running although its state is not active" % r[SEQ]))
        elif kd == "acp":
            completed = True
            # (invocations still running are cancelled inside the completion bracket, without uninvoke notifications:
            # checked below through the cancel request that must have reached each child's queue)
    # ---- completion cancels every invocation that is still running, in whichever state it was started
    p_acp = [r[SEQ] for r in lines if r[SESS] == "i0" and r[KIND] == "acp"]
    if p_acp and not res.failed_hard():
        for c in [x for x in sorted(b.invokeid, key=lambda x: (len(x), x)) if x.startswith("c")]:
            started = [r[SEQ] for r in lines if r[SESS] == c and r[KIND] in ("bms", "bes")]
            if not started or started[0] > p_acp[0]:
                continue
            c_done = [r[SEQ] for r in lines if r[SESS] == c and r[KIND] == "bcp"]
            if c_done and c_done[0] < p_acp[0]:
                continue   # finished (or was cancelled) before
            cq = b.ext.get(c)
            marker = [r[SEQ] for r in lines if r[KIND] == "enq<" and r[SESS] == cq and not r[6].get("name")]
            if not marker or marker[0] > p_acp[0]:
                v.append(("C11.uninvoke-once", "the interpreter completed (afterCompletion at seq %d) while the invoked session %s (invoke id %s) was still running and had not been told to cancel" % (
                    p_acp[0], c, b.invokeid.get(c))))
                break
    info["invocations"] = n_aiv
    # ---- per child session facts
    child_final = {}   # tag -> seq of entering cf
    child_cancel_seen = {}
    child_last = {}
    child_first = {}
    for r in lines:
        s = r[SESS]
        if s in children:
            child_last[s] = r[SEQ]
            child_first.setdefault(s, r[SEQ])
            if r[KIND] == "bes" and r[5] == "cf":
                child_final[s] = r[SEQ]
    # match sessions to invocations by order
    pairs = list(zip(children, inv_seq))
    for (c, (s_aiv, s_aun)) in pairs:
        if s_aun is not None and child_last.get(c, 0) > s_aun:
            v.append(("C11.silent-after-cancel", "child session %s recorded activity at seq %d after its uninvoke returned at seq %d" % (c, child_last[c], s_aun)))
    # ---- done.invoke
    dones = [r for r in lines if r[SESS] == "i0" and r[KIND] == "ev" and r[5]["name"] == "done.invoke.kid"]
    info["done"] = len(dones)
    # each done must be attributable to a distinct child that reached its final state before
    finals_sorted = sorted(child_final.values())
    if len(dones) > len(finals_sorted):
        v.append(("C11.done-implies-final", "%d done.invoke.kid processed but only %d child sessions reached a top-level final state" % (len(dones), len(finals_sorted))))
    for i, d in enumerate(dones[:len(finals_sorted)]):
        if finals_sorted[i] > d[SEQ]:
            v.append(("C11.done-implies-final", "done.invoke.kid processed at seq %d before any further child reached its final state (seq %d)" % (d[SEQ], finals_sorted[i])))
    # enqueue side: done.invoke enqueued at most once per child session
    done_enq = [r for r in lines if r[KIND] == "enq<" and r[SESS] == pext and r[6]["name"] == "done.invoke.kid"]
    # "... if and only if the child reached a top-level final state on its own": a child that reaches its final state only
    # after the cancel request was put into its queue (it is working off what was still queued) does not report
    # done.invoke.  (A child that finishes by itself while the parent is still on its way to cancel it may.)
    for n, (c, (s_aiv, s_aun)) in enumerate(zip(children, inv_seq)):
        cq = b.ext.get(c)
        marker = [r[SEQ] for r in lines if r[KIND] == "enq<" and r[SESS] == cq and not r[6].get("name") and r[SEQ] > s_aiv]
        if not marker or c not in child_final or child_final[c] < marker[0]:
            continue
        ctask = set(r[TASK] for r in lines if r[SESS] == c and r[KIND] in ("bes", "bms"))
        late = [d for d in done_enq if d[SEQ] > marker[0] and d[TASK] in ctask]    # the child's own thread reports done.invoke
        if late:
            v.append(("C11.done-only-on-its-own", "child %s reached its final state at seq %d, after the cancel request had been put into its queue (seq %d), yet done.invoke.kid was put into the parent's queue at seq %d" % (
                c, child_final[c], marker[0], late[0][SEQ])))
    # done-eventually: one invocation only, child finished on its own, parent stayed in inv until the quiescent quit
    if plan.get("quiesce") and not res.failed_hard() and len(children) == 1 and n_aiv == 1 and completed:
        c = children[0]
        exits = [r for r in lines if r[SESS] == "i0" and r[KIND] == "bxs" and r[5] == "inv"]
        quit_ev = [r for r in lines if r[SESS] == "i0" and r[KIND] == "ev" and r[5]["name"] == "quit"]
        settle_done = [r[SEQ] for r in lines if r[KIND] == "op>" and r[6] == "settle"]
        # no claim when finishing races with the parent leaving: the child must have reached its
        # final state before the harness observed quiescence
        if c in child_final and quit_ev and settle_done and child_final[c] < settle_done[0] and all(x[SEQ] > quit_ev[0][SEQ] for x in exits):
            n = len([d for d in dones if d[SEQ] < quit_ev[0][SEQ]])
            # only when the quit was sent after quiescence (sleep 100 + settle) and the child finished well before
            if n != 1:
                v.append(("C11.done-eventually", "child reached its final state on its own (seq %d), parent stayed in the invoking state until quiescence, but done.invoke.kid was processed %d times" % (child_final[c], n)))
    # ---- routing
    # child -> parent: immediate sends of one child session arrive in send order, each at most once
    for c in children:
        sent = []      # (uuid or name, name, delayed)
        for r in lines:
            if r[KIND] == "enq<" and r[SESS] == pext and r[6].get("invokeid") == "kid" and r[6]["name"].startswith("c."):
                pass
        # parent's processing order of c.N from this child, N ascending for immediate sends is implied by FIFO; check duplicates
    seen_c = {}
    for r in lines:
        if r[SESS] == "i0" and r[KIND] == "ev" and r[5]["name"].startswith("c.") and r[6]:
            seen_c[r[6]] = seen_c.get(r[6], 0) + 1
    for u, n in seen_c.items():
        if n > 1:
            v.append(("C11.routing", "child event with uuid %s processed %d times by the parent" % (u, n)))
    # autoforward / #_kid: events reach exactly the running child, in the parent's processing order
    par_fwd = [r[5]["name"] for r in lines if r[SESS] == "i0" and r[KIND] == "ev" and r[5]["name"].startswith("fwd.")]
    for c in children:
        got = [r[5]["name"] for r in lines if r[SESS] == c and r[KIND] == "ev" and r[5]["name"].startswith("fwd.")]
        if not facts["autofwd"] and got:
            v.append(("C11.routing", "child %s processed %s although autoforward is off" % (c, got)))
        filt = [n for n in par_fwd if n in got]
        if filt != got:
            v.append(("C11.routing", "child %s processed forwarded events %s, parent processed them in order %s" % (c, got, par_fwd)))
        if len(set(got)) != len(got):
            v.append(("C11.routing", "child %s processed a forwarded event twice: %s" % (c, got)))
    # completeness: what the parent forwards or sends to #_kid while the invocation is running must be put
    # into that child's external queue (whether the child gets to process it before it ends is another matter)
    child_extq = {c: b.ext.get(c) for c in children}
    kid_exit_sends = {}
    try:
        croot = gen.from_xml(plan["charts"]["main"])
        for e in croot.walk():
            if (e.tag == "send" and e.attrs.get("target") == "#_kid" and "delay" not in e.attrs and e.attrs.get("event")
                    and any(a.tag == "onexit" for a in gen._ancestors(e)) and any(a.attrs.get("id") == "inv" for a in gen._ancestors(e))
                    and not any(a.tag == "content" for a in gen._ancestors(e))):
                kid_exit_sends[e.xpath()] = e.attrs["event"]
    except Exception:
        kid_exit_sends = {}
    for (c, (s_aiv, s_aun)) in pairs:
        q = child_extq.get(c)
        if not q:
            continue
        got_q = [(r[SEQ], r[6]["name"]) for r in lines if r[KIND] == "enq<" and r[SESS] == q]
        # the interval ends when cancelling begins (beforeUninvoking) or the child finished on its own
        buns = [r[SEQ] for r in lines if r[SESS] == "i0" and r[KIND] == "bun" and r[SEQ] > s_aiv and (len(r) <= 6 or r[6] == "kid")]
        s_end = min(buns) if buns else 10 ** 12
        child_done = [r[SEQ] for r in lines if r[SESS] == c and r[KIND] == "bcp"]
        if child_done:
            s_end = min(s_end, min(child_done))
        if facts["autofwd"]:
            for r in lines:
                if r[KIND] == "deq>" and r[SESS] == pext and r[6].get("name", "") and s_aiv < r[SEQ] < s_end:
                    nm = r[6]["name"]
                    # forwarded right after the dequeue, before the parent's own processing of the next event
                    nxt = [x[SEQ] for x in lines if x[KIND] == "deq>" and x[SESS] == pext and x[SEQ] > r[SEQ]]
                    lim = min(nxt) if nxt else 10 ** 12
                    if lim > s_end:
                        continue  # cancellation began before the forwarding window closed: either outcome
                    if not any(r[SEQ] < sq < lim and n == nm for (sq, n) in got_q):
                        v.append(("C11.routing", "parent dequeued %s (seq %d) while the invocation of %s was running with autoforward, but it was never put into the child's queue" % (nm, r[SEQ], c)))
                        break
        # the onexit handlers of the invoking state (and of the states below it) run before the invocation is cancelled
        # (Appendix D, exitStates: the onexit content first, then cancelInvoke): what they send to #_kid is put into the
        # child's queue, unless the child had finished on its own by then
        later_aiv = [a for (c2, (a, u)) in pairs if a > s_aiv]
        # (a child that ended because it was cancelled has not "finished on its own")
        cancel_marks = [r[SEQ] for r in lines if r[KIND] == "enq<" and r[SESS] == q and not r[6].get("name") and r[SEQ] > s_aiv]
        open_send = None
        ms_start = None
        for r in lines:
            if r[SESS] != "i0":
                continue
            if r[KIND] == "bms":
                ms_start = r[SEQ]
            elif r[KIND] == "bxc" and r[5] in kid_exit_sends:
                open_send = r
            elif r[KIND] == "axc" and open_send is not None and r[5] == open_send[5]:
                if (ms_start is not None and s_aiv < ms_start and not [a for a in later_aiv if a < ms_start] and (not buns or min(buns) > ms_start)
                        and not (child_done and min(child_done) < r[SEQ] and not [m for m in cancel_marks if m < min(child_done)])):
                    nm = kid_exit_sends[r[5]]
                    if not any(open_send[SEQ] < sq < r[SEQ] and n == nm for (sq, n) in got_q):
                        v.append(("C11.routing", "the onexit handler %s sent %s to #_kid (seq %d-%d) in the micro-step that leaves the invoking state, while the invocation of %s was still "
                                  "running when the micro-step began; the event was never put into the child's queue" % (r[5], nm, open_send[SEQ], r[SEQ], c)))
                        break
                open_send = None
    for s in b.invokeid:
        if s.startswith("i"):
            bad = [r[5]["name"] for r in lines if r[SESS] == s and r[KIND] == "ev" and r[5]["name"] == "tok"]
            if bad:
                v.append(("C11.routing", "event addressed to #_kid was processed by the parent"))
    # ---- finalize before matching
    if facts["finalize"]:
        cur_deq = None
        fin_done = False
        nfrom = 0
        for r in lines:
            if r[KIND] == "deq>" and r[SESS] == pext:
                cur_deq = r[6] if r[6].get("name") else None
                fin_done = False
                if cur_deq is not None and cur_deq.get("invokeid") == "kid":
                    nfrom += 1
            elif r[SESS] == "i0" and r[KIND] == "bxc" and "/finalize[" in r[5]:
                fin_done = True
                if cur_deq is None or cur_deq.get("invokeid") != "kid":
                    v.append(("C11.finalize-first", "finalize content executed for an event that did not come from the invoked session"))
            elif r[SESS] == "i0" and r[KIND] == "ev":
                if r[5].get("invokeid") == "kid" and not fin_done and invoked_at(inv_seq, r[SEQ]):
                    v.append(("C11.finalize-first", "event %s from the invoked session reached transition matching without its finalize block having run" % r[5]["name"]))
            elif r[SESS] == "i0" and r[KIND] == "log" and facts["fin_assign"] and r[6].startswith("fin: "):
                try:
                    val = int(float(r[6][5:].strip()))
                except ValueError:
                    val = None
                if val is not None and val > nfrom:
                    v.append(("C11.finalize-first", "transition saw fin=%s but only %d events from the invoked session were dequeued" % (val, nfrom)))
    info["nontrivial"] = (n_aiv > 0 and (n_aun > 0 or len(dones) > 0))
    return v[:6], info


def invoked_at(inv_seq, seq):
    for (a, u) in inv_seq:
        if a < seq and (u is None or seq < u):
            return True
    return False


def evaluate(plan, usim):
    return oracle(plan, usim.run(plan))[0]


def run_one(ctx, usim, seed, k, acc):
    plan = gen_plan(seed, k)
    res = usim.run(plan)
    v, info = oracle(plan, res)
    end = res.end or {}
    acc.sim_ms += end.get("sim_ms", 0)
    acc.decisions += end.get("decisions", 0)
    acc.count("pol." + plan["sched"]["policy"])
    acc.count("fault.adversarial_time_advance", end.get("adv_time", 0))
    acc.count("fault.spurious_wakeup", end.get("spurious", 0))
    acc.count("fault.task_stall", end.get("stalls", 0))
    acc.count("fault.preemption_switches", end.get("switches", 0))
    acc.count("probe.invocations", info["invocations"])
    acc.count("probe.done_invoke_processed", info["done"])
    acc.count("probe.exit_and_reentry_in_one_macrostep", info["reentry_same_macrostep"])
    acc.count("probe.tasks", end.get("tasks", 0))
    if info["nontrivial"] and end.get("sched_hash"):
        acc.hashes.add(end["sched_hash"])
    if k % 100 == 7 and not res.failed_hard():
        res2 = usim.run(plan)
        acc.recheck_n += 1
        if res2.trace_hash != res.trace_hash:
            acc.recheck_mismatch += 1
    for (rule, detail) in v:
        acc.violations.append({"rule": rule, "detail": detail, "plan": plan, "k": k})
        break
    if len(acc.samples) < 1 and info["nontrivial"] and k < 64:
        acc.samples.append({"run": k, "seed": seed, "chart": plan["charts"]["main"], "actors": plan["actors"], "sched": plan["sched"],
                            "invocations": info["invocations"], "trace_tail": tail(res.lines, 10)})


def classify(rule, detail, plan):
    if rule.startswith("C11.deadlock[") or rule.startswith("C11.stuck[") or rule.startswith("C11.idle-forever["):
        m = re.search(r"task (\d+) '[^']*' blocked on event_(?:del|free)", detail)
        if m and re.search(r"blocked on mutex held by task %s " % m.group(1), detail):
            return "C11-cancel-blocks-in-event_del-while-callback-waits-for-queue-mutex"
    return None
