"""Tiny SCXML element tree used by all generators: renders XML and computes the
same xPath strings as uscxml's DOMUtils::xPathForNode, so that oracle code can
map monitor records back to the generated element."""
from xml.sax.saxutils import quoteattr, escape

NS = "http://www.w3.org/2005/07/scxml"


class El(object):
    __slots__ = ("tag", "attrs", "children", "text", "parent", "meta")

    def __init__(self, tag, attrs=None, children=None, text=None, **meta):
        self.tag = tag
        self.attrs = dict(attrs or {})
        self.children = []
        self.text = text
        self.parent = None
        self.meta = meta
        for c in (children or []):
            self.add(c)

    def add(self, c):
        c.parent = self
        self.children.append(c)
        return c

    def xml(self, top=True):
        out = ["<", self.tag]
        if top and "xmlns" not in self.attrs:
            out.append(' xmlns="%s"' % NS)
        for k, v in self.attrs.items():
            out.append(" %s=%s" % (k, quoteattr(str(v))))
        if not self.children and self.text is None:
            out.append("/>")
            return "".join(out)
        out.append(">")
        if self.text is not None:
            out.append(escape(self.text))
        for c in self.children:
            out.append(c.xml(False))
        out.append("</%s>" % self.tag)
        return "".join(out)

    def xpath(self):
        parts = []
        cur = self
        while cur is not None:
            if "id" in cur.attrs:
                parts.insert(0, '//%s[@id="%s"]' % (cur.tag, cur.attrs["id"]))
                return "".join(parts)
            idx = 1
            if cur.parent is not None:
                for s in cur.parent.children:
                    if s is cur:
                        break
                    if s.tag.lower() == cur.tag.lower():
                        idx += 1
            parts.insert(0, "/%s[%d]" % (cur.tag, idx))
            cur = cur.parent
        return "".join(parts)

    def walk(self):
        yield self
        for c in self.children:
            for x in c.walk():
                yield x

    def find_all(self, tag):
        return [e for e in self.walk() if e.tag == tag]

    def index_by_xpath(self):
        d = {}
        for e in self.walk():
            d.setdefault(e.xpath(), []).append(e)
        return d
