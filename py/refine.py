"""Step-by-step refinement check of a recorded interpreter history against refmodel.Model.
Used by C01 (and with fault knowledge by C07)."""
import json

from tracelib import *
from refmodel import Model, ModelError


def parse_log(msg):
    msg = msg.rstrip("\n")
    if ": " in msg:
        label, val = msg.split(": ", 1)
    elif msg.endswith(":"):
        label, val = msg[:-1], ""
    else:
        label, val = "", msg
    val = val.strip()
    if val in ('""', ""):
        return (label, None)
    if len(val) >= 2 and val[0] == '"' and val[-1] == '"':
        return (label, val[1:-1])
    try:
        f = float(val)
        if f == int(f):
            return (label, int(f))
        return (label, f)
    except ValueError:
        return (label, val)


class Unit(object):
    __slots__ = ("kind", "ev", "uuid", "pre", "tokens", "cfg", "seq", "result", "src")

    def __init__(self, kind, seq):
        self.kind = kind
        self.ev = None
        self.uuid = ""
        self.pre = []
        self.tokens = None
        self.cfg = None
        self.seq = seq
        self.result = None
        self.src = None     # "int" / "ext": the queue the event was taken from


def parse_units(lines, tag, bind):
    """Split the session's record stream into units: init / event / eventless / completion."""
    intq = bind.int.get(tag)
    extq = bind.ext.get(tag)
    dlyq = bind.dly.get(tag)
    units = []
    cur = None          # unit being built (after ev, before/inside bracket)
    inside = False
    first = True
    in_completion = False
    delayed_uuids = set()
    own_task = None
    last_src = None
    for r in lines:
        kd = r[KIND]
        s = r[SESS]
        tok = None
        if s == tag:
            if own_task is None and kd in ("bms", "st"):
                own_task = r[TASK]
            if kd == "ev":
                if cur is not None and not inside:
                    units.append(cur)   # event without enabled transitions
                cur = Unit("event", r[SEQ])
                cur.ev = r[5]
                cur.uuid = r[6] if len(r) > 6 else ""
                cur.src = last_src
                continue
            if kd == "bms":
                if cur is None:
                    cur = Unit("init" if first else "eventless", r[SEQ])
                cur.tokens = []
                inside = True
                first = False
                continue
            if kd == "ams":
                inside = False
                units.append(cur)
                cur = None
                continue
            if kd == "bcp":
                if cur is not None:
                    units.append(cur)
                cur = Unit("completion", r[SEQ])
                cur.tokens = []
                inside = True
                in_completion = True
                continue
            if kd == "acp":
                inside = False
                in_completion = False
                units.append(cur)
                cur = None
                continue
            if kd == "st":
                if cur is not None and not inside:
                    units.append(cur)
                    cur = None
                if units and r[5] not in ("INITIALIZED",):
                    units[-1].cfg = r[6]
                    units[-1].result = r[5]
                continue
            if kd == "bxs":
                tok = ("x", r[5])
            elif kd == "bes":
                if r[5] != "" or not r[6].startswith("/"):
                    tok = ("e", r[5])
                elif r[6].count("/") > 1:
                    tok = ("e", r[5])
            elif kd == "btt":
                tok = ("t", r[5])
            elif kd == "bxc":
                tok = ("c", r[5])
            elif kd == "log" and r[5] == 4:
                lab, val = parse_log(r[6])
                tok = ("l", lab, val)
        elif s == intq and kd == "enq<":
            # a delayed <send target="#_internal"> is put there by the timer thread: not content of this microstep
            if r[7] not in delayed_uuids:
                tok = ("r", r[6]["name"])
        elif kd == "deq>" and s in (intq, extq) and r[6].get("name"):
            last_src = "int" if s == intq else "ext"
        elif s == dlyq and kd == "dly<":
            delayed_uuids.add(r[7])
            tok = ("s", r[5]["name"], r[6], r[5].get("sendid", ""))
        elif s == extq and kd == "enq<":
            e = r[6]
            if r[7] not in delayed_uuids and e.get("origin") and r[TASK] == own_task:
                tok = ("s", e["name"], 0, e.get("sendid", ""))
        if tok is not None:
            if inside and cur is not None:
                cur.tokens.append(tok)
            elif cur is not None:
                cur.pre.append(tok)
            elif units:
                # content outside any bracket (e.g. error raised by a failing condition after the last unit)
                units[-1].pre.append(("late",) + tok)
    if cur is not None:
        units.append(cur)
    return units


def norm_model_tokens(toks):
    out = []
    for t in toks:
        if t[0] in ("k", "X"):
            continue
        out.append(tuple(t))
    return out


def first_diff(a, b):
    d = 0
    while d < min(len(a), len(b)) and a[d] == b[d]:
        d += 1
    return d


def phase_of(tok):
    return {"x": "exit", "e": "entry", "t": "transition", "c": "content", "l": "log", "r": "raise", "s": "send"}.get(tok[0] if tok else "", "order")


def refine(root, plan, res, tag="i0", fail_elems=None, max_units=100000, variant=(), fail_occ=None):
    """-> (violations, info).  Rules: C01.<phase> on the first divergence."""
    v = []
    info = {"units": 0, "microsteps": 0, "events": 0, "finished": False}
    lines = res.lines
    bind = Bindings(lines)
    units = parse_units(lines, tag, bind)
    try:
        m = Model(root, fail_elems, variant, fail_occ=fail_occ)
    except ModelError as e:
        return [("HARNESS", "model cannot load chart: %s" % e)], info
    harness = []
    for actor, ops in plan["actors"].items():
        for o in ops:
            if o.get("op") == "recv" and "i%d" % o.get("i", 0) == tag:
                harness.append(o["name"])

    cur_enabled = []

    def diverge(rule, msg, u):
        v.append((rule, "%s (unit at seq %d, kind %s, event %s) enabled=%s" % (msg, u.seq, u.kind, u.ev and u.ev.get("name"), json.dumps(cur_enabled))))

    try:
        for n, u in enumerate(units[:max_units]):
            info["units"] += 1
            cur_enabled[:] = []
            if u.kind == "init":
                if n != 0:
                    diverge("C01.order", "a second initial microstep", u)
                    break
                mt = norm_model_tokens(m.start())
            elif u.kind == "completion":
                if m.running:
                    # cancelled by the harness: completion without the model having finished is fine
                    pass
                mt = norm_model_tokens(m.exit_interpreter())
                it = [t for t in (u.tokens or []) if t[0] in ("c", "l", "r", "s")]
                if it != mt:
                    d = first_diff(it, mt)
                    diverge("C01.completion", "completion content differs at token %d: implementation %s, model %s" % (
                        d, it[d] if d < len(it) else None, mt[d] if d < len(mt) else None), u)
                info["finished"] = True
                break
            else:
                if not m.running:
                    diverge("C01.order", "implementation keeps stepping after a top-level final state was entered", u)
                    break
                enabled0 = m.select(None)
                if u.kind == "eventless":
                    if not enabled0:
                        diverge("C01.select", "implementation took an eventless microstep, model has no enabled eventless transition; implementation tokens %s" % (u.tokens[:6],), u)
                        break
                    cur_enabled[:] = [t.xpath() for t in enabled0]
                    mt = norm_model_tokens(m.microstep(enabled0))
                else:
                    name = u.ev["name"]
                    etype = u.ev.get("type")
                    if enabled0:
                        diverge("C01.select", "implementation processed event %s although the model has enabled eventless transitions %s" % (name, [t.xpath() for t in enabled0]), u)
                        break
                    asyncint = [p for p in m.pending_ext if len(p) > 3 and p[0] == name and p[2] is not True]
                    from_int = (u.src == "int") if u.src else (etype != 2 or bool(m.iq and name == m.iq[0]))
                    if from_int:
                        if m.iq and name == m.iq[0]:
                            m.iq.pop(0)
                        elif asyncint:
                            asyncint[0][2] = True       # arrived from the timer at some point: its place in the queue is not the model's to decide
                        elif m.iq:
                            diverge("C01.queue", "implementation processed internal event %s, model expects %s (queue %s)" % (name, m.iq[0], m.iq[:4]), u)
                            break
                        else:
                            diverge("C01.queue", "implementation processed internal event %s but the model's internal queue is empty" % name, u)
                            break
                    else:
                        if m.iq:
                            diverge("C01.queue", "implementation took external event %s while the model's internal queue holds %s" % (name, m.iq[:4]), u)
                            break
                        if name in harness:
                            harness.remove(name)
                        else:
                            pend = [p for p in m.pending_ext if len(p) == 3 and p[0] == name and p[2] is not True]
                            if not pend:
                                diverge("C01.event-not-pending", "implementation processed external event %s that neither the harness nor the chart has pending" % name, u)
                                break
                            pend[0][2] = True
                    info["events"] += 1
                    enabled = m.select(name)
                    # errors raised by failing conditions during selection appear before the bracket
                    if not enabled:
                        if u.tokens is not None:
                            diverge("C01.select", "implementation took transitions %s for event %s, model enables none" % ([t for t in u.tokens if t[0] == "t"][:4], name), u)
                            break
                        m.take_tokens()
                        continue
                    if u.tokens is None:
                        diverge("C01.select", "model enables %s for event %s, implementation took no transition" % ([t.xpath() for t in enabled], name), u)
                        break
                    cur_enabled[:] = [t.xpath() for t in enabled]
                    mt = norm_model_tokens(m.microstep(enabled))
            it = list(u.tokens or [])
            if it != mt:
                d = first_diff(it, mt)
                a = it[d] if d < len(it) else None
                b = mt[d] if d < len(mt) else None
                diverge("C01." + phase_of(a or b), "microstep differs at token %d: implementation %s, model %s; context implementation %s model %s" % (
                    d, a, b, it[max(0, d - 3):d + 2], mt[max(0, d - 3):d + 2]), u)
                break
            info["microsteps"] += 1
            if u.cfg is not None:
                icfg = [x for x in u.cfg.split() if not x.startswith("#/")]
                mcfg = m.config_ids()
                if icfg != mcfg:
                    diverge("C01.configuration", "configuration after the microstep: implementation %s, model %s" % (icfg, mcfg), u)
                    break
    except ModelError as e:
        v.append(("HARNESS", "reference model error: %s" % e))
    info["probes"] = dict(getattr(m, "probes", {}))
    return v, info
