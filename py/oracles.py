"""Shared oracles over recorded histories: configuration legality (C02) and the
monitor-notification grammar (C13).  DESIGN.md section 5."""
import json
import xml.etree.ElementTree as ET

from tracelib import *

NS = "{http://www.w3.org/2005/07/scxml}"


class Structure(object):
    """State tree of a chart (children inside <content> excluded)."""

    def __init__(self, xml):
        self.root = ET.fromstring(xml)
        self.kind = {}
        self.parent = {}
        self.children = {}
        self.pseudo = set()
        self.order = {}
        self.histories = []   # (hid, type, parent id or None)
        n = [0]

        def walk(e, pid):
            for c in e:
                tag = c.tag.replace(NS, "")
                if tag == "content":
                    continue
                if tag in ("state", "parallel", "final"):
                    cid = c.get("id")
                    self.kind[cid] = tag
                    self.parent[cid] = pid
                    self.children.setdefault(pid, []).append(cid)
                    self.children.setdefault(cid, [])
                    self.order[cid] = n[0]
                    n[0] += 1
                    walk(c, cid)
                elif tag == "history":
                    self.pseudo.add(c.get("id"))
                    self.histories.append((c.get("id"), c.get("type", "shallow"), pid))
                elif tag == "initial":
                    if c.get("id"):
                        self.pseudo.add(c.get("id"))
                elif tag in ("invoke",):
                    continue
                else:
                    walk(c, pid)
        walk(self.root, None)

    def descendants(self, sid):
        out = []
        for c in self.children.get(sid, []):
            out.append(c)
            out += self.descendants(c)
        return out


def legality(struct, cfg_ids, root_present):
    """Recommendation 3.11 on a configuration (list of ids).  -> list of messages"""
    errs = []
    cfg = set(cfg_ids)
    if not root_present:
        errs.append("the document root is not part of the configuration")
    for s in cfg_ids:
        if s in struct.pseudo:
            errs.append("pseudo-state %s is active" % s)
            continue
        if s not in struct.kind:
            errs.append("unknown state %s is active" % s)
            continue
        p = struct.parent[s]
        if p is not None and p not in cfg:
            errs.append("state %s is active but its parent %s is not" % (s, p))
        kids = struct.children.get(s, [])
        act = [k for k in kids if k in cfg]
        if struct.kind[s] == "parallel":
            if len(act) != len(kids):
                errs.append("parallel %s is active but its children %s are not" % (s, [k for k in kids if k not in cfg]))
        elif kids:
            if len(act) != 1:
                errs.append("compound state %s has %d active children %s" % (s, len(act), act))
    tops = [k for k in struct.children.get(None, []) if k in cfg]
    if len(tops) != 1:
        errs.append("%d top-level states active: %s" % (len(tops), tops))
    if not any(s in struct.kind and not struct.children.get(s) for s in cfg_ids):
        errs.append("no atomic state is active")
    return errs


def c02_violations(xml, lines, tag="i0"):
    """Legality after every step, root entered once, history sanity."""
    v = []
    try:
        st = Structure(xml)
    except ET.ParseError:
        return v, {"checked": 0}
    checked = 0
    root_entries = 0
    root_exits = 0
    completed = False
    last_cfg = set()
    exited_cfgs = {}    # parent id -> list of configurations (sets) active right before it was exited
    taken = []
    for r in lines:
        if r[SESS] != tag:
            continue
        kd = r[KIND]
        if kd == "op>":
            continue
        if kd == "bes" and r[5] == "" and r[6].startswith("/") and r[6].count("/") == 1:
            root_entries += 1
            if root_entries > 1:
                v.append(("C02.root-once", "the document root was entered %d times" % root_entries))
        elif kd == "bxs" and r[5] == "" and r[6].startswith("/") and r[6].count("/") == 1:
            root_exits += 1
            v.append(("C02.root-once", "the document root was exited (seq %d) before completion" % r[SEQ]))
        elif kd == "bms":
            taken = []
        elif kd == "btt":
            taken.append(r[5])
        elif kd == "bxs":
            exited_cfgs.setdefault(r[5], []).append(set(last_cfg))
        elif kd == "bcp":
            completed = True
        elif kd == "st":
            res = r[5]
            if res in ("INITIALIZED", "EXC") or completed:
                if res == "INITIALIZED":
                    root_entries = 0
                    completed = False
                continue
            items = r[6].split()
            root_present = any(x.startswith("#/") and x.count("/") == 1 for x in items)
            ids = [x for x in items if not x.startswith("#/")]
            errs = legality(st, ids, root_present)
            checked += 1
            for e in errs[:2]:
                v.append(("C02.legal-configuration", "after step returning %s (seq %d): %s; configuration %s taken=%s" % (res, r[SEQ], e, ids, json.dumps(taken))))
            last_cfg = set(ids)
            if len(r) > 7 and r[7] not in ("!", "?"):
                hist = r[7].split()
                # every remembered state must be explained by some history whose parent was exited while the state was active
                for x in hist:
                    if x not in st.kind:
                        continue
                    ok = False
                    for (hid, htype, pid) in st.histories:
                        if pid is None:
                            continue
                        scope = st.children.get(pid, []) if htype != "deep" else st.descendants(pid)
                        if x in scope and any(x in c for c in exited_cfgs.get(pid, [])):
                            ok = True
                            break
                    if not ok:
                        v.append(("C02.history", "remembered history names %s, but no history state's parent was exited while %s was active below it (remembered set %s)" % (x, x, hist)))
                        break
                for h in hist:
                    if h not in st.kind:
                        v.append(("C02.history", "remembered history names %s which is not a state" % h))
            if v:
                break
    return v[:3], {"checked": checked}


# -----------------------------------------------------------------------------------------
# C13: monitor grammar
# -----------------------------------------------------------------------------------------

PAIRS = {"axs": "bxs", "axc": "bxc", "att": "btt", "aes": "bes", "aiv": "biv", "aun": "bun", "ams": "bms", "acp": "bcp"}
OPEN = set(PAIRS.values())


def c13_violations(lines, sessions=None):
    """Push-down acceptor per session.  -> (violations, info)"""
    v = []
    info = {"records": 0, "brackets": 0, "sessions": 0, "error_paths": 0}
    by_sess = {}
    # which queue did each processed event come from?  (a <send target="#_internal"> keeps type EXTERNAL)
    bind = Bindings(lines)
    last_role = {}
    ev_from_ext = set()
    for r in lines:
        if r[KIND] == "deq>" and r[6].get("name"):
            sess = bind.qsess.get(r[SESS])
            if sess is not None:
                last_role[sess] = r[5]
        elif r[KIND] == "ev":
            if last_role.get(r[SESS], "ext" if r[5].get("type") == 2 else "int") == "ext":
                ev_from_ext.add(r[SEQ])
    for r in lines:
        kd = r[KIND]
        if kd in ("ev", "bms", "ams", "bxs", "axs", "bxc", "axc", "bun", "aun", "btt", "att", "bes", "aes", "biv", "aiv", "stb", "bcp", "acp", "iss", "st", "log"):
            s = r[SESS]
            if kd == "log":
                # logger tags: "i0", children "i0+" ... attribute by enclosing exec bracket instead
                continue
            by_sess.setdefault(s, []).append(r)
    for s, recs in sorted(by_sess.items()):
        if sessions is not None and s not in sessions:
            continue
        info["sessions"] += 1
        stack = []
        in_ms = False
        in_cp = False
        phase = 0          # 1 exits, 2 transitions, 3 entries
        stable_pending = False   # a macrostep is in progress (something was processed since the last stb)
        reached_final = False    # a top-level final state was entered: the session ends inside that macrostep
        n_stb_since_ext = 0
        saw_anything = False
        for r in recs:
            kd = r[KIND]
            if kd == "st":
                continue
            info["records"] += 1

            def bad(rule, msg):
                v.append((rule, "session %s seq %d: %s" % (s, r[SEQ], msg)))
            if kd in OPEN:
                # what may open here?
                if kd == "bms":
                    if in_ms or stack:
                        bad("C13.nesting", "beforeMicroStep inside an open bracket %s" % [x[0] for x in stack])
                    in_ms = True
                    phase = 0
                    info["brackets"] += 1
                    stable_pending = True
                elif kd == "bcp":
                    if in_ms or stack:
                        bad("C13.nesting", "beforeCompletion inside an open bracket")
                    if stable_pending and not reached_final:
                        # a cancelled session completes; the macrostep it was in is finished and announced first
                        bad("C13.stable-once", "completion started although the macrostep before it was never closed by a stable-configuration notice")
                    in_cp = True
                elif kd == "bxs":
                    if not in_ms:
                        bad("C13.outside-bracket", "beforeExitingState %s outside a micro-step bracket" % r[5])
                    if phase > 1:
                        bad("C13.phase-order", "state %s exited after transitions/entries of the same micro-step were reported" % r[5])
                    phase = max(phase, 1)
                    if stack:
                        bad("C13.nesting", "beforeExitingState %s inside open %s" % (r[5], stack[-1][0]))
                elif kd == "btt":
                    if not in_ms:
                        bad("C13.outside-bracket", "beforeTakingTransition outside a micro-step bracket")
                    is_default = "/initial[" in r[5] or "history[" in r[5]
                    if not is_default:
                        if phase > 2:
                            bad("C13.phase-order", "transition %s taken after entries of the same micro-step were reported" % r[5])
                        phase = max(phase, 2)
                    if stack:
                        bad("C13.nesting", "beforeTakingTransition inside open %s" % stack[-1][0])
                elif kd == "bes":
                    if not in_ms:
                        bad("C13.outside-bracket", "beforeEnteringState %s outside a micro-step bracket" % r[5])
                    phase = 3
                    if len(r) > 6 and "//final[" in str(r[6]):
                        reached_final = True      # (conservatively: any <final>; only a top-level one ends the session)
                    if stack:
                        bad("C13.nesting", "beforeEnteringState %s inside open %s" % (r[5], stack[-1][0]))
                elif kd == "bxc":
                    if not stack and not in_cp:
                        # executable content directly outside a bracket is only legal for <finalize>
                        if "/finalize[" not in r[5] or in_ms:
                            bad("C13.outside-bracket", "executable content %s outside exit/transition/entry/completion/finalize" % r[5])
                elif kd in ("biv", "bun"):
                    if stack and stack[-1][0] not in ("bxs",):
                        bad("C13.nesting", "%s inside open %s" % (kd, stack[-1][0]))
                stack.append((kd, r[5] if len(r) > 5 else ""))
                if kd in ("bms", "bcp"):
                    stack.pop()
                continue
            if kd in PAIRS:
                want = PAIRS[kd]
                if kd == "ams":
                    if stack:
                        bad("C13.balance", "afterMicroStep with open %s" % [x[0] + ":" + str(x[1])[-40:] for x in stack])
                        info["error_paths"] += 1
                        stack = []
                    if not in_ms:
                        bad("C13.balance", "afterMicroStep without beforeMicroStep")
                    in_ms = False
                    continue
                if kd == "acp":
                    if stack:
                        bad("C13.balance", "afterCompletion with open %s" % [x[0] for x in stack])
                        stack = []
                    if not in_cp:
                        bad("C13.balance", "afterCompletion without beforeCompletion")
                    in_cp = False
                    continue
                if not stack:
                    bad("C13.balance", "%s without matching %s" % (kd, want))
                    continue
                top = stack[-1]
                if top[0] != want or (len(r) > 5 and top[1] != r[5]):
                    bad("C13.balance", "%s %s does not close the innermost open bracket %s %s" % (kd, str(r[5])[-50:] if len(r) > 5 else "", top[0], str(top[1])[-50:]))
                    # recover: pop up to the matching opener if there is one
                    idx = None
                    for k in range(len(stack) - 1, -1, -1):
                        if stack[k][0] == want and (len(r) <= 5 or stack[k][1] == r[5]):
                            idx = k
                            break
                    if idx is not None:
                        stack = stack[:idx]
                    continue
                stack.pop()
                continue
            if kd == "ev":
                if in_ms or stack or in_cp:
                    bad("C13.nesting", "beforeProcessingEvent inside an open bracket")
                if r[SEQ] in ev_from_ext:
                    if stable_pending and saw_anything:
                        bad("C13.stable-once", "external event %s processed although the macrostep before it was never closed by a stable-configuration notice" % r[5]["name"])
                    elif saw_anything and n_stb_since_ext < 1:
                        bad("C13.stable-once", "external event %s processed after %d stable-configuration notices since the previous macrostep began" % (r[5]["name"], n_stb_since_ext))
                    n_stb_since_ext = 0
                stable_pending = True
                saw_anything = True
            elif kd == "stb":
                if in_ms or stack or in_cp:
                    bad("C13.nesting", "onStableConfiguration inside an open bracket")
                n_stb_since_ext += 1
                reached_final = False
                if not stable_pending:
                    bad("C13.stable-once", "second stable-configuration notice without anything processed in between")
                stable_pending = False
                saw_anything = True
            elif kd == "iss":
                pass
        if in_ms:
            v.append(("C13.balance", "session %s: history ends inside a micro-step bracket" % s))
        if stack and not in_ms:
            v.append(("C13.balance", "session %s: history ends with open %s" % (s, [x[0] for x in stack])))
    return v[:4], info


def c13_completeness(xml, lines, tag="i0"):
    """configuration(after) == configuration(before) - exited + entered for every micro-step bracket;
    every <log> line inside the exec bracket of a <log> element; every dequeued event has one
    beforeProcessingEvent."""
    v = []
    cfg = None
    exited, entered = [], []
    in_ms = False
    open_exec = []
    bind = Bindings(lines)
    extq, intq = bind.ext.get(tag), bind.int.get(tag)
    deq_names = []
    ev_names = []
    for r in lines:
        kd = r[KIND]
        s = r[SESS]
        if s == tag:
            if kd == "bms":
                in_ms = True
                exited, entered = [], []
            elif kd == "bxs" and in_ms:
                exited.append(r[5])
            elif kd == "bes" and in_ms:
                if r[5] != "" or not (r[6].startswith("/") and r[6].count("/") == 1):
                    entered.append(r[5])
            elif kd == "ams":
                in_ms = False
            elif kd == "bxc":
                open_exec.append(r[5])
            elif kd == "axc":
                if open_exec and open_exec[-1] == r[5]:
                    open_exec.pop()
                elif r[5] in open_exec:
                    while open_exec and open_exec[-1] != r[5]:
                        open_exec.pop()
                    open_exec.pop()
            elif kd == "st":
                if r[5] in ("INITIALIZED", "EXC"):
                    cfg = None
                    continue
                ids = [x for x in r[6].split() if not x.startswith("#/")]
                if cfg is not None and (exited or entered):
                    want = [x for x in cfg if x not in exited]
                    want_set = set(want) | set(entered)
                    if set(ids) != want_set:
                        v.append(("C13.complete", "configuration %s after the micro-step (seq %d) is not configuration before %s minus reported exits %s plus reported entries %s" % (
                            sorted(ids), r[SEQ], sorted(cfg), exited, entered)))
                    if len(set(exited)) != len(exited) or len(set(entered)) != len(entered):
                        dup_ok = set(exited) & set(entered)
                        if any(exited.count(x) > 1 for x in exited) or any(entered.count(x) > 1 for x in entered):
                            v.append(("C13.complete", "a state was reported exited or entered twice in one micro-step: exits %s entries %s" % (exited, entered)))
                elif cfg is not None and set(ids) != set(cfg):
                    v.append(("C13.complete", "configuration changed from %s to %s (seq %d) without a micro-step bracket reporting exits or entries" % (sorted(cfg), sorted(ids), r[SEQ])))
                cfg = ids
                exited, entered = [], []
            elif kd == "ev":
                ev_names.append(r[5]["name"])
            elif kd == "log" and r[5] == 4:
                if not open_exec or "/log[" not in open_exec[-1]:
                    v.append(("C13.complete", "<log> output %r (seq %d) outside the executing-content bracket of a <log> element" % (r[6][:40], r[SEQ])))
        elif kd == "deq>" and s in (extq, intq) and r[6].get("name"):
            deq_names.append(r[6]["name"])
        if v:
            break
    if not v and deq_names[:len(ev_names)] != ev_names[:len(deq_names)]:
        v.append(("C13.complete", "events dequeued %s but beforeProcessingEvent reported %s" % (deq_names[:10], ev_names[:10])))
    return v[:2]


def c13_entry_account(xml, lines, tag="i0"):
    """Every default entry is accounted for by a reported transition: when a compound state P and one of its children X are
    entered in the same micro-step, then X is (an ancestor of) a target of a transition reported in that micro-step
    (ordinary, <initial> or <history> default transition), or X was active at an earlier exit of P (restored from history),
    or P has no <initial> element and X is its default child (initial attribute / first child in document order)."""
    import gen
    try:
        root = gen.from_xml(xml)
    except Exception:
        return []
    idx = root.index_by_xpath()
    by_id = {e.attrs["id"]: e for e in root.walk() if e.tag in ("state", "parallel", "final", "history") and "id" in e.attrs
             and not any(a.tag == "content" for a in gen._ancestors(e))}
    last_children = {}
    active = set()
    in_ms = False
    taken, entered, exited = [], [], []

    def covers(x, names):
        for n in names:
            e = by_id.get(n)
            while e is not None:
                if e is x:
                    return True
                e = e.parent
        return False

    for r in lines:
        if r[SESS] != tag:
            continue
        kd = r[KIND]
        if kd == "bms":
            in_ms = True
            taken, entered, exited = [], [], []
        elif kd == "btt" and in_ms:
            taken.append(r[5])
        elif kd == "bes" and in_ms:
            entered.append(r[5])
        elif kd == "bxs" and in_ms:
            exited.append(r[5])
        elif kd == "st" and r[5] in ("INITIALIZED", "EXC"):
            active = set()
            last_children = {}
        elif kd == "ams" and in_ms:
            in_ms = False
            targets = []
            for xp in taken:
                for t in idx.get(xp, []):
                    if t.tag == "transition":
                        targets += t.attrs.get("target", "").split()
            for pid in exited:
                p = by_id.get(pid)
                if p is not None and p.tag == "state":
                    # (every child that was ever active at an exit of P: which exit a history remembers depends on where the
                    # history sits and on whether its parent was in the exit set; the rule stays on the safe side)
                    last_children.setdefault(pid, set()).update(c.attrs.get("id") for c in p.children if c.attrs.get("id") in active)
            ent = set(entered)
            for xid in entered:
                x = by_id.get(xid)
                if x is None or x.tag == "history" or x.parent is None or x.parent is root:
                    continue
                p = x.parent
                if p.tag != "state" or p.attrs.get("id") not in ent:
                    continue
                if covers(x, targets) or xid in last_children.get(p.attrs["id"], ()):
                    continue
                if not any(c.tag == "initial" for c in p.children):
                    if "initial" in p.attrs:
                        if covers(x, p.attrs["initial"].split()):
                            continue
                    else:
                        kids = [c for c in p.children if c.tag in ("state", "parallel", "final")]
                        if kids and kids[0] is x:
                            continue
                return [("C13.complete", "micro-step ending at seq %d: state %s was entered together with its parent %s, but no reported transition (%s) targets it or a state below it, "
                         "it was never active when %s was exited before, and it is not the parent's default child by initial attribute or document order" % (
                             r[SEQ], xid, p.attrs["id"], taken, p.attrs["id"]))]
            active = (active - set(exited)) | ent
    return []
