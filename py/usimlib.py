"""Driver side of the simulator: usim child processes, run results, worker pool.

One VERIF_SEED decides everything: run k of property P uses
run_seed = splitmix(VERIF_SEED, P, k); plans are generated from it in the
worker, executed by a usim child (C++ simulator + real uSCXML), and the
recorded history is checked by the property's oracle.
"""
import json
import os
import random
import subprocess
import sys
import time
import hashlib
import multiprocessing as mp
import traceback

VERIF = os.path.dirname(os.path.dirname(os.path.abspath(__file__)))
BUILD = os.path.join(VERIF, "build")

M64 = (1 << 64) - 1


def splitmix(x):
    x = (x + 0x9E3779B97F4A7C15) & M64
    z = x
    z = ((z ^ (z >> 30)) * 0xBF58476D1CE4E5B9) & M64
    z = ((z ^ (z >> 27)) * 0x94D049BB133111EB) & M64
    return z ^ (z >> 31)


def run_seed(verif_seed, prop, k):
    h = int.from_bytes(hashlib.sha256(prop.encode()).digest()[:8], "big")
    return splitmix(splitmix(verif_seed ^ h) + k)


def substream(seed, name):
    h = int.from_bytes(hashlib.sha256(name.encode()).digest()[:8], "big")
    return random.Random(splitmix(seed ^ h))


class Result(object):
    __slots__ = ("lines", "end", "verdict", "crash", "exitcode", "harness_error", "stderr_tail")

    def __init__(self):
        self.lines = []
        self.end = None
        self.verdict = None      # (rule, detail)
        self.crash = None        # (what, sig, [addr...])
        self.exitcode = None
        self.harness_error = None
        self.stderr_tail = ""

    @property
    def trace_hash(self):
        return self.end.get("trace_hash") if self.end else None

    def failed_hard(self):
        return self.verdict is not None or self.crash is not None or self.end is None


class Usim(object):
    """One usim child process; restarted transparently when it dies or after a verdict."""

    def __init__(self, flavour="plain", stderr_path=None, extra_env=None, wrapper=None):
        self.wrapper = list(wrapper or [])
        self.flavour = flavour
        self.path = os.path.join(BUILD, flavour, "usim")
        self.proc = None
        self.stderr_path = stderr_path
        self.own_stderr = False
        self.extra_env = extra_env or {}
        self.starts = 0

    def _start(self):
        if self.flavour == "san" and not self.stderr_path:
            # sanitizer reports go to stderr: keep them for the crash signature
            d = os.path.join(BUILD, "scratch")
            os.makedirs(d, exist_ok=True)
            self.stderr_path = os.path.join(d, "stderr-%d-%d.log" % (os.getpid(), id(self) & 0xffff))
            self.own_stderr = True
        if self.stderr_path and self.flavour == "san":
            try:
                open(self.stderr_path, "wb").close()
            except OSError:
                pass
        env = dict(os.environ)
        env.setdefault("USCXML_NOCACHE_FILES", "1")
        env.update(self.extra_env)
        args = self.wrapper + [self.path]
        if self.stderr_path:
            args.append("-v")
            errf = open(self.stderr_path, "ab")
        else:
            errf = subprocess.DEVNULL
        self.proc = subprocess.Popen(args, stdin=subprocess.PIPE, stdout=subprocess.PIPE, stderr=errf,
                                     env=env, bufsize=1 << 16)
        self.starts += 1

    def close(self):
        if self.proc:
            try:
                self.proc.stdin.close()
            except Exception:
                pass
            try:
                self.proc.wait(timeout=5)
            except Exception:
                self.proc.kill()
                self.proc.wait()
            self.proc = None
        self._drop_stderr()

    def _drop_stderr(self):
        if self.own_stderr and self.stderr_path:
            try:
                os.unlink(self.stderr_path)
            except OSError:
                pass

    def __del__(self):
        try:
            self._drop_stderr()
        except Exception:
            pass

    def kill(self):
        if self.proc:
            self.proc.kill()
            self.proc.wait()
            self.proc = None
        self._drop_stderr()

    def run(self, plan):
        if self.proc is None or self.proc.poll() is not None:
            self._start()
        res = Result()
        data = (json.dumps(plan, separators=(",", ":")) + "\n").encode()
        try:
            self.proc.stdin.write(data)
            self.proc.stdin.flush()
        except BrokenPipeError:
            self._start()
            self.proc.stdin.write(data)
            self.proc.stdin.flush()
        out = self.proc.stdout
        lines = res.lines
        while True:
            raw = out.readline()
            if not raw:
                break
            try:
                rec = json.loads(raw)
            except ValueError:
                res.harness_error = "unparsable trace line: %r" % raw[:200]
                continue
            tag = rec[0]
            if tag == "end":
                res.end = rec[1]
                break
            if tag == "start":
                continue
            if tag == "verdict":
                res.verdict = (rec[1], rec[2])
                continue
            if tag == "crash":
                res.crash = (rec[1], rec[2], rec[3])
                continue
            if tag == "harness-error":
                res.harness_error = rec[1]
                continue
            lines.append(rec)
        if res.end is None or res.verdict is not None:
            # process died or parked threads left behind: reap it
            try:
                self.proc.stdin.close()
            except Exception:
                pass
            try:
                res.exitcode = self.proc.wait(timeout=10)
            except Exception:
                self.proc.kill()
                res.exitcode = self.proc.wait()
            self.proc = None
            if res.end is None and res.crash is None:
                res.crash = ("exit", res.exitcode, [])
            if res.end is None and self.stderr_path:
                try:
                    with open(self.stderr_path, "rb") as f:
                        f.seek(0, 2)
                        n = f.tell()
                        f.seek(max(0, n - 6000))
                        res.stderr_tail = f.read().decode("utf-8", "replace")
                except OSError:
                    pass
        return res


def symbolise(addrs, flavour="plain", limit=12):
    """Function names for the crash backtrace (non-PIE binary, absolute addresses)."""
    if not addrs:
        return []
    path = os.path.join(BUILD, flavour, "usim")
    try:
        out = subprocess.run(["addr2line", "-f", "-C", "-e", path] + list(addrs[:40]), capture_output=True, text=True, timeout=30).stdout
    except Exception:
        return []
    ls = out.splitlines()
    frames = []
    for i in range(0, len(ls) - 1, 2):
        fn = ls[i]
        loc = ls[i + 1]
        frames.append("%s @ %s" % (fn, loc))
    return frames[:limit + 8]


# ---------------------------------------------------------------------------------------
# worker pool
# ---------------------------------------------------------------------------------------

class Accum(object):
    """Per-worker (and merged) statistics."""

    def __init__(self):
        self.runs = 0
        self.counters = {}      # name -> int (faults fired, probes, policies ...)
        self.hashes = set()     # distinct nontrivial interleaving/trace hashes (truncated)
        self.violations = []    # list of dict(rule, detail, plan, k)
        self.samples = []
        self.sim_ms = 0
        self.decisions = 0
        self.recheck_n = 0
        self.recheck_mismatch = 0
        self.harness_errors = []
        self.wall = 0.0
        self.usim_starts = 0
        self.known = {}          # known-finding id -> count (classified in the worker, first example kept in violations)

    def count(self, name, n=1):
        if n:
            self.counters[name] = self.counters.get(name, 0) + n

    def merge(self, o):
        self.runs += o.runs
        for k, v in o.counters.items():
            self.counters[k] = self.counters.get(k, 0) + v
        self.hashes |= o.hashes
        self.violations += o.violations
        self.samples += o.samples
        self.sim_ms += o.sim_ms
        self.decisions += o.decisions
        self.recheck_n += o.recheck_n
        self.recheck_mismatch += o.recheck_mismatch
        self.harness_errors += o.harness_errors
        self.usim_starts += o.usim_starts
        for k, v in o.known.items():
            self.known[k] = self.known.get(k, 0) + v


def _worker(args):
    (modname, prop, tier, verif_seed, indices, flavour, deadline, widx, opts) = args
    acc = Accum()
    try:
        sys.path.insert(0, os.path.join(VERIF, "py"))
        mod = __import__(modname)
        usim = Usim(flavour)
        ctx = mod.Context(prop, tier, opts) if hasattr(mod, "Context") else None
        extra = {}
        if ctx is not None:
            # modules that mix flavours ask for another child with ctx.usim_for(flavour)
            def usim_for(fl, _extra=extra, _default=usim, _dfl=flavour):
                if fl == _dfl:
                    return _default
                if fl not in _extra:
                    _extra[fl] = Usim(fl)
                return _extra[fl]
            ctx.usim_for = usim_for
        max_viol = opts.get("max_violations_per_worker", 40)
        known_ids = set(opts.get("known_ids", []))
        for k in indices:
            if time.time() > deadline:
                acc.count("stopped_by_wall_clock_cap")
                break
            seed = run_seed(verif_seed, prop, k)
            nviol_before = len(acc.violations)
            try:
                mod.run_one(ctx, usim, seed, k, acc)
            except Exception:
                acc.harness_errors.append("run %d seed %d: %s" % (k, seed, traceback.format_exc()[-1500:]))
                if len(acc.harness_errors) > 5:
                    break
            acc.runs += 1
            # known findings are counted, not collected: they must not exhaust the per-worker violation budget
            if len(acc.violations) > nviol_before and known_ids and hasattr(mod, "classify"):
                keep = acc.violations[:nviol_before]
                for v in acc.violations[nviol_before:]:
                    try:
                        cls = mod.classify(v["rule"], v["detail"], v["plan"])
                    except Exception:
                        cls = None
                    if cls in known_ids:
                        acc.known[cls] = acc.known.get(cls, 0) + 1
                        if acc.known[cls] > 1:
                            continue
                    keep.append(v)
                acc.violations = keep
            if len(acc.violations) >= max_viol:
                acc.count("stopped_after_max_violations")
                break
        acc.usim_starts = usim.starts + sum(u.starts for u in extra.values())
        usim.close()
        for u in extra.values():
            u.close()
    except Exception:
        acc.harness_errors.append("worker %d: %s" % (widx, traceback.format_exc()[-1500:]))
    return acc


def run_pool(modname, prop, tier, verif_seed, nruns, workers, flavour, wall_cap_s, opts=None):
    opts = opts or {}
    t0 = time.time()
    deadline = t0 + wall_cap_s
    jobs = []
    for w in range(workers):
        idx = list(range(w, nruns, workers))
        if idx:
            jobs.append((modname, prop, tier, verif_seed, idx, flavour, deadline, w, opts))
    total = Accum()
    if workers == 1:
        for j in jobs:
            total.merge(_worker(j))
    else:
        ctx = mp.get_context("fork")
        with ctx.Pool(len(jobs)) as pool:
            for acc in pool.imap_unordered(_worker, jobs):
                total.merge(acc)
    total.wall = time.time() - t0
    return total
