"""C03 — The two micro-step engines are interchangeable.

One plan (generated chart or self-contained W3C IRP document, event history in
deterministic-history mode on the simulated clock) is executed once with the
'large' and once with the 'fast' engine, both created through the Factory
registration; the complete recorder logs must be equal per session.
See DESIGN.md 6/C03.
"""
import glob
import json
import os
import re

import gen
import workload
import p_c01
import usimlib
from tracelib import *

PROP = "C03"
LEVEL = "exploration"
FLAVOUR = "plain"
TIERS = {"quick": (25000, 170), "thorough": (1500000, 3300)}
RULE_TEXT = ("one run = one plan (generated chart incl. planted failing elements in 20% of the runs, or one self-contained W3C IRP document for null/lua/promela) executed "
             "twice, with engine 'large' and engine 'fast', in deterministic-history mode; the per-session recorder logs (monitor notifications, <log> output, raised and sent "
             "events, step() results, configurations) must be equal; non-trivial = at least 3 micro-step brackets compared; distinct = distinct document+history content hashes")
ASSUMPTIONS = [
    "cache files off (USCXML_NOCACHE_FILES=1); cache on/off for the fast engine belongs to C20",
    "IRP documents that need src=/HTTP are excluded; second-long delays cost nothing on the simulated clock",
]
IRP_DIRS = ["/repo/test/w3c/null", "/repo/test/w3c/lua", "/repo/test/w3c/promela"]
_irp_cache = None


def irp_docs():
    global _irp_cache
    if _irp_cache is None:
        docs = []
        for d in IRP_DIRS:
            for f in sorted(glob.glob(os.path.join(d, "test*.scxml"))):
                try:
                    txt = open(f, encoding="utf-8", errors="replace").read()
                except OSError:
                    continue
                if "src=" in txt or "srcexpr=" in txt or "http://" in txt.replace("http://www.w3.org", "") or "basichttp" in txt.lower():
                    continue
                if "<invoke" in txt and "<content" not in txt:
                    continue
                docs.append((f, txt))
        _irp_cache = docs
    return _irp_cache


class Context(object):
    def __init__(self, prop, tier, opts):
        self.opts = opts


def gen_plan(seed, k):
    rp = usimlib.substream(seed, "pick")
    if rp.random() < 0.12 and irp_docs():
        f, txt = rp.choice(irp_docs())
        ops = [{"op": "create", "i": 0, "chart": "main", "engine": "large", "base": f},
               {"op": "run", "i": 0, "block": 50, "until": ["FINISHED"], "max": 600},
               {"op": "cancel", "i": 0}, {"op": "run", "i": 0, "block": 0, "until": ["FINISHED"], "max": 50}]
        return {"id": k, "seed": seed, "entropy_seed": seed & 0x7fffffff, "mode": "det", "engine": "large", "source": os.path.basename(os.path.dirname(f)) + "/" + os.path.basename(f),
                "sched": {"seed": seed & 0x7fffffff, "policy": "nonpreempt", "max_decisions": 400000}, "step_budget": 200, "charts": {"main": txt}, "actors": {"main": ops}}
    plan = workload.chart_and_history(seed, k, engine="large", adversarial_p=0.0, rec_micro=False, plant_p=0.2)
    plan["source"] = "generated"
    return plan


def with_engine(plan, engine):
    q = json.loads(json.dumps(plan))
    for ops in q["actors"].values():
        for o in ops:
            if o.get("op") == "create":
                o["engine"] = engine
    q["engine"] = engine
    return q


KEEP = ("ev", "bms", "ams", "bxs", "axs", "bes", "aes", "btt", "att", "bxc", "axc", "biv", "aiv", "bun", "aun", "stb", "bcp", "acp", "log", "st", "exc", "iss")


def per_session(lines):
    b = Bindings(lines)
    out = {}
    for r in lines:
        kd = r[KIND]
        s = r[SESS]
        if kd in KEEP:
            f = r[5:]
            if kd == "ev":
                f = [r[5].get("name"), r[5].get("type"), r[5].get("data", "")[:80]]
            if kd == "iss":
                continue
            out.setdefault(s.rstrip("+"), []).append((kd, json.dumps(f)))
        elif kd in ("enq<", "dly<") and s in b.qsess:
            sess = b.qsess[s]
            ev = r[6] if kd == "enq<" else r[5]
            role = r[5] if kd == "enq<" else "delay"
            if role == "int":
                out.setdefault(sess, []).append(("raise", ev.get("name")))
            elif kd == "dly<":
                out.setdefault(sess, []).append(("dly", "%s %s" % (ev.get("name"), r[6])))
    return out


def compare(plan, resL, resF):
    v = []
    info = {"brackets": 0}
    a, b = per_session(resL.lines), per_session(resF.lines)
    info["brackets"] = sum(1 for s in a.values() for x in s if x[0] == "bms")
    for s in sorted(set(a) | set(b)):
        x, y = a.get(s, []), b.get(s, [])
        if x != y:
            d = 0
            while d < min(len(x), len(y)) and x[d] == y[d]:
                d += 1
            # transitions taken in the diverging micro-step (for classification)
            taken = []
            for side in (x, y):
                k = d
                while k > 0 and side[k - 1][0] != "bms":
                    k -= 1
                j = k
                while j < len(side) and side[j][0] != "ams":
                    if side[j][0] == "btt":
                        taken.append(json.loads(side[j][1])[0])
                    j += 1
            # transitions taken before the diverging micro-step (either engine): a recorded deviation that fired earlier leaves
            # the two engines in different (possibly illegal) configurations, and the difference only shows later
            earlier = []
            for side in (x, y):
                for rec in side[:d]:
                    if rec[0] == "btt":
                        earlier.append(json.loads(rec[1])[0])
            v.append(("C03.trace-differs", "session %s: record %d differs: large=%s fast=%s; before: %s earlier=%s taken=%s" % (
                s, d, x[d] if d < len(x) else None, y[d] if d < len(y) else None, x[max(0, d - 3):d], json.dumps(sorted(set(earlier))), json.dumps(sorted(set(taken))))))
            break
    return v, info


def run_pair(plan, usim):
    pl, pf = with_engine(plan, "large"), with_engine(plan, "fast")
    rl = usim.run(pl)
    rf = usim.run(pf)
    v = []
    info = {"brackets": 0, "ended": False}
    if rl.failed_hard() or rf.failed_hard():
        # crashes / deadlocks are decided by C07 / C09 / C10; an asymmetric one is reported here
        if rl.failed_hard() != rf.failed_hard():
            which = "large" if rl.failed_hard() else "fast"
            hf = hard_failures(rl if rl.failed_hard() else rf, PROP)
            v.append(("C03.only-one-engine-fails", "only the %s engine ended in %s" % (which, hf[0][0] if hf else "?")))
        info["ended"] = True
        return v, info, rl
    cv, cinfo = compare(plan, rl, rf)
    v += cv
    info["brackets"] = cinfo["brackets"]
    return v, info, rl


def evaluate(plan, usim):
    return run_pair(plan, usim)[0]


def run_one(ctx, usim, seed, k, acc):
    plan = gen_plan(seed, k)
    v, info, rl = run_pair(plan, usim)
    end = rl.end or {}
    acc.sim_ms += 2 * end.get("sim_ms", 0)
    acc.decisions += 2 * end.get("decisions", 0)
    acc.count("pol.nonpreempt")
    acc.count("source." + ("irp" if plan["source"] != "generated" else "generated"))
    acc.count("probe.microstep_brackets_compared", info["brackets"])
    acc.count("probe.timers_fired", end.get("ev_fired", 0))
    acc.count("runs_ended_by_verdict_or_crash_of_another_property", 1 if info["ended"] else 0)
    if plan.get("planted"):
        acc.count("fault.planted_failing_" + str(plan["planted"]))
    if info["brackets"] >= 3:
        acc.hashes.add(usimlib.hashlib.sha256((plan["charts"]["main"] + json.dumps(plan["actors"])).encode()).hexdigest()[:16])
    for (rule, detail) in v:
        acc.violations.append({"rule": rule, "detail": detail, "plan": plan, "k": k})
        break
    if len(acc.samples) < 1 and info["brackets"] >= 3 and k < 64:
        acc.samples.append({"run": k, "seed": seed, "source": plan["source"], "chart": plan["charts"]["main"][:3000], "ops": plan["actors"]["main"],
                            "brackets_compared": info["brackets"]})


def deep_initial_attribute(xml):
    """does some state's initial attribute name a state that is not its child?"""
    import xml.etree.ElementTree as ET
    ns = "{http://www.w3.org/2005/07/scxml}"
    try:
        root = ET.fromstring(xml)
    except ET.ParseError:
        return False
    for e in root.iter():
        ini = e.get("initial")
        if ini and e.tag in (ns + "state", ns + "scxml", "state", "scxml"):
            kids = set(c.get("id") for c in e)
            if any(t not in kids for t in ini.split()):
                return True
    return False


def classify(rule, detail, plan):
    m = re.search(r"taken=(\[.*\])$", detail)
    if m and rule == "C03.trace-differs" and plan.get("source") == "generated":
        try:
            taken = json.loads(m.group(1))
        except ValueError:
            taken = []
        if taken and p_c01.history_of_active_parent(plan["charts"]["main"], taken):
            return "C03-transition-into-history-of-active-parent"
        if taken and ancestor_pair_with_targetless(plan["charts"]["main"], taken):
            return "C03-fast-engine-suppresses-ancestor-transition-next-to-targetless-descendant"
        # the history deviation fired in an earlier micro-step of this run (each of its transitions taken alone)
        m2 = re.search(r"earlier=(\[.*?\]) taken=", detail)
        if m2:
            try:
                earlier = json.loads(m2.group(1))
            except ValueError:
                earlier = []
            for t in earlier:
                if p_c01.history_of_active_parent(plan["charts"]["main"], [t]):
                    return "C03-transition-into-history-of-active-parent"
    return None


def ancestor_pair_with_targetless(xml, taken):
    root = gen.from_xml(xml)
    idx = root.index_by_xpath()
    ts = [t for xp in taken for t in idx.get(xp, []) if t.tag == "transition"]
    for a in ts:
        for b in ts:
            if a is b:
                continue
            p = b.parent.parent
            anc = False
            while p is not None:
                if p is a.parent:
                    anc = True
                p = p.parent
            if anc and (not a.attrs.get("target") or not b.attrs.get("target")):
                return True
    return False
