"""C15 (narrow claim) — JSON that crosses simulated storage is lossless and its parser robust.

Only the surface where JSON meets a fault is claimed: the snapshot text uSCXML
itself writes (InterpreterImpl::serialize -> Data::toJSON, events through
Event::operator Data) and reads back (Data::fromJSON, Event::fromData in
deserialize).  Snapshots of interpreters whose external queue holds events
with generated payloads are (a) round-tripped fault-free and (b) damaged like
stored bytes get damaged: truncated at every offset (short texts) or at seeded
offsets, torn (prefix of one snapshot + suffix of another), single bit flips.
See DESIGN.md 6/C15.
"""
import json

import gen
import p_c01
import usimlib
from tracelib import *

PROP = "C15"
LEVEL = "fault_enumeration"
FLAVOUR = "san"
FLAVOURS = ["san"]
TIERS = {"quick": (220, 170), "thorough": (9000, 3300)}
RULE_TEXT = ("one run = one generated chart whose external queue holds 1-4 events with generated payloads (nested maps/arrays, number-like strings, quotes, backslashes, "
             "control characters incl. \\v, UTF-8) at the snapshot; the snapshot text is round-tripped (deserialize + serialize, structural equality) and then damaged: "
             "truncation at every offset for texts <= 1.5 kB else at 200 seeded offsets, 20 torn writes, 60 single-bit flips, 60 single-byte substitutions, up to 30 number substitutions, each variant handed to deserialize() of a fresh "
             "interpreter in the ASan+UBSan build; non-trivial = a damaged variant that the parser had to look at (not byte-identical to the original); "
             "distinct = distinct damaged texts")
ASSUMPTIONS = [
    "scope is JSON crossing simulated storage only (snapshot strings); the general statement about all Data values and all byte strings is a pure function and is not claimed",
    "cache files (*.uscxml.cache) are covered as environment perturbation under C20",
]

STRINGS = ["", "x", "12", "1e3", "0x10", "true", "null", "a\"b", "back\\slash", "tab\there", "new\nline", "vt\x0bvt", "ff\x0c", "cr\r", "äöü€", "\U0001F600",
           "{not json", "[1,2", "'single'", "a/b", "\x01\x02", " lead", "trail ", "\"", "\\", "\\\"", "\\n", "%s", "</scxml>"]
# a backslash in front of every character that means something after a backslash in JSON (and a few that do not)
STRINGS += ["p\\" + c + "q" for c in "\"\\/bfnrtuvx0U "] + ["C:\\users\\new", "\\u0041", "\\u00e4\\u", "tail\\"]


def gen_payload(r, depth=0):
    x = r.random()
    if depth >= 2 or x < 0.45:
        if r.random() < 0.3:
            return r.choice([0, 1, -1, 3.5, 1e10, 123456789])
        return r.choice(STRINGS)
    if x < 0.75:
        return {r.choice(["k", "key two", "1", "a\"q", "ü", "n.e.s.t"]) + str(i): gen_payload(r, depth + 1) for i in range(r.randint(0, 3))}
    return [gen_payload(r, depth + 1) for _ in range(r.randint(0, 3))]


class Context(object):
    def __init__(self, prop, tier, opts):
        self.opts = opts


def base_plan(seed, k):
    rp = usimlib.substream(seed, "plan")
    dm = rp.choice(["lua", "null", "promela"])
    root = p_c01.gen_chart(rp, dm, {"sends": False})
    engine = rp.choice(["large", "fast"])
    ops = [{"op": "create", "i": 0, "chart": "main", "engine": engine}, {"op": "validate", "i": 0},
           {"op": "run", "i": 0, "block": 0, "until": ["IDLE"], "max": 120}]
    for n in range(rp.randint(1, 4)):
        o = {"op": "recv", "i": 0, "name": rp.choice(["a", "b", "pay.load"]), "json": json.dumps({"p": gen_payload(rp)})}
        if rp.random() < 0.6:
            # params: several names, sometimes a name twice (a multimap in the event); namelist entries
            names = [rp.choice(["alpha", "beta", "gamma", "a b", "k\"q"]) for _ in range(rp.randint(1, 4))]
            o["params"] = [[nm, json.dumps(gen_payload(rp, 1))] for nm in names]
        if rp.random() < 0.3:
            o["namelist"] = [[nm, json.dumps(gen_payload(rp, 1))] for nm in rp.sample(["v0", "v1", "zeta"], rp.randint(1, 2))]
        ops.append(o)
    ops.append({"op": "serialize", "i": 0, "slot": "s"})
    # round trip: fresh interpreter, deserialize, serialize again
    ops += [{"op": "create", "i": 1, "chart": "main", "engine": engine}, {"op": "deserialize", "i": 1, "slot": "s"},
            # one step announces the stable configuration again without consuming anything; serialize() refuses before that
            {"op": "step", "i": 1, "block": 0}, {"op": "serialize", "i": 1, "slot": "s2"}]
    return {"id": k, "seed": seed, "entropy_seed": seed & 0x7fffffff, "engine": engine, "flavour": "san",
            "sched": {"seed": seed & 0x7fffffff, "policy": "nonpreempt", "max_decisions": 2000000},
            "charts": {"main": root.xml()}, "actors": {"main": ops}}


def damage(text, r, other=None):
    """-> list of (kind, damaged text)"""
    b = text.encode("utf-8", "surrogatepass")
    out = []
    n = len(b)
    if n <= 1500:
        offs = range(0, n)
    else:
        offs = sorted(set(r.randrange(n) for _ in range(200)))
    for o in offs:
        out.append(("truncate", b[:o]))
    ob = (other or text[::-1]).encode("utf-8", "surrogatepass")
    for _ in range(20):
        o = r.randrange(n)
        out.append(("torn", b[:o] + ob[min(o, len(ob)):]))
    for _ in range(60):
        o = r.randrange(n)
        bit = 1 << r.randrange(8)
        out.append(("bitflip", b[:o] + bytes([b[o] ^ bit]) + b[o + 1:]))
    for _ in range(60):
        o = r.randrange(n)
        out.append(("bytesub", b[:o] + bytes([r.choice(b"0123456789-\"[]{},:. eE\\xn")]) + b[o + 1:]))
    # a stored number replaced by another one (same class of damage as a flipped byte inside a digit string)
    import re
    nums = [m for m in re.finditer(rb"-?\d+", b)]
    for _ in range(min(30, len(nums))):
        m = r.choice(nums)
        out.append(("numsub", b[:m.start()] + r.choice([b"-1", b"99", b"4000000000", b"65536", b"7", b"18446744073709551615"]) + b[m.end():]))
    return [(kind, x.decode("utf-8", "replace")) for (kind, x) in out]


def fault_plan(plan, variants):
    q = dict(plan)
    ops = []
    for n, (kind, text) in enumerate(variants):
        ops.append({"op": "create", "i": 2, "chart": "main", "engine": plan["engine"], "rec_queues": False, "monitor": False})
        ops.append({"op": "deserialize", "i": 2, "text": text})
        ops.append({"op": "destroy", "i": 2})
    q["actors"] = {"main": ops}
    q["wall_limit_s"] = 120
    return q


def structural(text):
    try:
        return json.loads(text)
    except ValueError:
        return None


def oracle_base(plan, res):
    v = hard_failures(res, PROP, flavour="san", kinds=("crash",))
    snaps = {r[5]: r[6] for r in res.lines if r[KIND] == "snap"}
    info = {"snap": snaps.get("s"), "fatal": False}
    for r in res.lines:
        if r[KIND] == "op>" and r[6] == "validate" and r[7] == "FATAL":
            info["fatal"] = True
    if res.failed_hard() or info["fatal"]:
        return v, info
    if "s" in snaps:
        for r in res.lines:
            if r[KIND] == "exc" and r[5] == "deserialize":
                v.append(("C15.roundtrip", "deserialize() of the interpreter's own fault-free snapshot failed: %s %s %s" % (r[6], r[7], r[8])))
    if "s" in snaps and "s2" in snaps:
        a, b = structural(snaps["s"]), structural(snaps["s2"])
        for x in (a, b):
            # bookkeeping of which active states had their (here: no) invocations started depends on whether a
            # macrostep ended since; the extra step of the round trip changes it, not the JSON layer
            if isinstance(x, dict) and isinstance(x.get("microstepper"), dict):
                x["microstepper"].pop("invocations", None)
        if a is None:
            v.append(("C15.roundtrip", "the snapshot text is not valid JSON: %r" % snaps["s"][:200]))
        elif a != b:
            ka = a.get("externalQueue") if isinstance(a, dict) else None
            kb = b.get("externalQueue") if isinstance(b, dict) else None
            v.append(("C15.roundtrip", "snapshot -> deserialize -> serialize is not the identity: externalQueue before=%s after=%s" % (json.dumps(ka)[:400], json.dumps(kb)[:400])))
    return v, info


def evaluate(plan, usim):
    u = usim if usim.flavour == "san" else usimlib.Usim("san")
    try:
        if "variant" in plan:
            q = fault_plan(plan, [tuple(plan["variant"])])
            r = u.run(q)
            return [(rule.replace("C15.crash", "C15.robust"), d) for (rule, d) in hard_failures(r, PROP, flavour="san")]
        res = u.run(plan)
        return oracle_base(plan, res)[0]
    finally:
        if u is not usim:
            u.kill()


def run_one(ctx, usim, seed, k, acc):
    plan = base_plan(seed, k)
    u = ctx.usim_for("san")
    res = u.run(plan)
    v, info = oracle_base(plan, res)
    end = res.end or {}
    acc.sim_ms += end.get("sim_ms", 0)
    acc.decisions += end.get("decisions", 0)
    acc.count("pol.nonpreempt")
    acc.count("flavour.san")
    for (rule, detail) in v:
        acc.violations.append({"rule": rule, "detail": detail, "plan": plan, "k": k})
        break
    if info["fatal"] or not info["snap"] or res.failed_hard():
        acc.count("runs_skipped_fatal_or_no_snapshot")
        return
    text = info["snap"]
    rp = usimlib.substream(seed, "damage")
    variants = damage(text, rp)
    q = fault_plan(plan, variants)
    r2 = u.run(q)
    nexc = len([r for r in r2.lines if r[KIND] == "exc" and r[5] == "deserialize"])
    acc.count("fault.truncated_snapshot", len([1 for (kd, t) in variants if kd == "truncate"]))
    acc.count("fault.torn_snapshot", len([1 for (kd, t) in variants if kd == "torn"]))
    acc.count("fault.bitflip_snapshot", len([1 for (kd, t) in variants if kd == "bitflip"]))
    acc.count("fault.byte_substituted_snapshot", len([1 for (kd, t) in variants if kd == "bytesub"]))
    acc.count("fault.number_substituted_snapshot", len([1 for (kd, t) in variants if kd == "numsub"]))
    acc.count("probe.damaged_snapshots_rejected_cleanly", nexc)
    acc.count("probe.damaged_snapshots_accepted", len(variants) - nexc if not r2.failed_hard() else 0)
    for (kd, t) in variants:
        if t != text:
            acc.hashes.add(usimlib.hashlib.sha256(t.encode("utf-8", "replace")).hexdigest()[:12])
    if r2.failed_hard():
        # find the variant that killed the process: the last deserialize op that started
        last = None
        for r in r2.lines:
            if r[KIND] == "op<" and r[6] == "deserialize":
                last = r[5]
        hf = hard_failures(r2, PROP, flavour="san")
        if last is not None and hf:
            var = variants[last // 3]
            p2 = dict(plan)
            p2["variant"] = [var[0], var[1]]
            acc.violations.append({"rule": hf[0][0].replace("C15.crash", "C15.robust"), "detail": "deserialize() of a %s snapshot (%d bytes): %s" % (var[0], len(var[1]), hf[0][1][:1500]), "plan": p2, "k": k})
    if len(acc.samples) < 1 and k < 64:
        acc.samples.append({"run": k, "seed": seed, "snapshot": text[:1200], "variants": len(variants), "example_damaged": variants[len(variants) // 2][1][:300]})


def classify(rule, detail, plan):
    return None
