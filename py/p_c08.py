"""C08 — External events are processed exactly once, in order, at macrostep boundaries.

N producer tasks call Interpreter::receive concurrently with a stepping task
(blocking and non-blocking step) under the seeded scheduler; the chart raises
internal events and has eventless follow-up transitions so that macrosteps
have length.  See DESIGN.md 6/C08.
"""
import json
import xml.etree.ElementTree as ET

from scx import El
import usimlib
from tracelib import *

PROP = "C08"
LEVEL = "exploration"
FLAVOUR = "plain"
TIERS = {"quick": (40000, 150), "thorough": (1500000, 3000)}
RULE_TEXT = ("one run = 1-4 producer tasks x up to 8 uniquely named events each, one stepper (step(0) / step(ms) / step(forever)), "
             "a generated chain chart (k raises per external event, eventless follow-ups, in 25% a targetless first stage that only raises, in 15% of the lua charts a first stage whose guard cannot be evaluated (the error event starts the chain), in 60% a watching region with guarded eventless transitions; in 15% of the plans the session has run and was reset, and 1-3 events are handed over before the stepper starts) under one seeded schedule; non-trivial = "
             "the receive() of one task overlapped (by global sequence number) a receive() or a dequeue of another task; "
             "distinct = distinct scheduler decision-sequence hashes among non-trivial runs")
ASSUMPTIONS = [
    "data races as such are not detected (a serialising scheduler hides them from TSan); only their schedule-visible consequences at synchronisation points",
]
NS = "{http://www.w3.org/2005/07/scxml}"


class Context(object):
    def __init__(self, prop, tier, opts):
        self.opts = opts


def gen_plan(seed, k):
    rp = usimlib.substream(seed, "plan")
    rs = usimlib.substream(seed, "sched")
    dm = rp.choice(["null", "null", "lua"])
    root = El("scxml", {"version": "1.0", "datamodel": dm, "initial": "s"})
    s = root.add(El("state", {"id": "s", "initial": "w"}))
    w = s.add(El("state", {"id": "w"}))
    nraise = rp.randint(0, 3)
    neps = rp.randint(0, 2)
    chain = ["e%d" % i for i in range(neps)] + ["y%d" % i for i in range(nraise)]
    first = chain[0] if chain else "w"
    x0 = rp.random()
    if dm == "lua" and x0 < 0.15:
        # the external event enables nothing, but evaluating its guard fails: the error event goes to the internal queue
        # and must be processed before the next external event, although no transition was taken at all
        w.add(El("transition", {"event": "p", "cond": "nosuchfn()", "target": "w"}))
        t = w.add(El("transition", {"event": "error.execution", "target": first}))
    elif x0 < 0.4:
        # the external event is taken by a targetless transition that only raises: the macrostep goes on although the
        # configuration did not change
        t0 = w.add(El("transition", {"event": "p"}))
        t0.add(El("raise", {"event": "k"}))
        t = w.add(El("transition", {"event": "k", "target": first}))
    else:
        t = w.add(El("transition", {"event": "p", "target": first}))
    for i in range(nraise):
        t.add(El("raise", {"event": "i%d" % i}))
    if rp.random() < 0.3:
        t.add(El("send", {"event": "p.self.%d" % 0, "delay": "0ms"}) if False else El("log", {"label": "took"}) if dm == "null" else El("log", {"label": "took", "expr": "1"}))
    for idx, name in enumerate(chain):
        st = s.add(El("state", {"id": name}))
        nxt = chain[idx + 1] if idx + 1 < len(chain) else "w"
        if name.startswith("e"):
            st.add(El("transition", {"target": nxt}))
        else:
            st.add(El("transition", {"event": "i%s" % name[1:], "target": nxt}))
    s.add(El("transition", {"event": "quit", "target": "f"}))
    root.add(El("final", {"id": "f"}))
    if rp.random() < 0.6 and [n for n in chain if n.startswith("y")]:
        # a region that only watches: its guarded eventless transitions become enabled by what the other region does, in a
        # state that itself stays active (an event may only be taken once these have been taken, too)
        root.children.remove(s)
        par = El("parallel", {"id": "par"})
        root.children.insert(0, par)
        par.parent = root
        par.add(s)
        root.attrs["initial"] = "par"
        wr = par.add(El("state", {"id": "wr", "initial": "b1"}))
        watched = rp.choice([n for n in chain if n.startswith("y")])
        b1 = wr.add(El("state", {"id": "b1"}))
        b1.add(El("transition", {"cond": "In('%s')" % watched, "target": "b2"}))
        b2 = wr.add(El("state", {"id": "b2"}))
        b2.add(El("transition", {"cond": "In('w')", "target": "b1"}))

    nprod = rp.randint(1, 4)
    block = rp.choice([0, 1, 7, 50, -1, -1])
    actors = {"main": [{"op": "create", "i": 0, "chart": "main", "engine": rp.choice(["default", "large", "fast"])}]}
    if rp.random() < 0.15:
        # the session has run before and was reset: what is handed to receive() between the reset and the next step is
        # processed like any other event
        actors["main"] += [{"op": "run", "i": 0, "block": 0, "until": ["IDLE"], "max": 30}, {"op": "reset", "i": 0}]
        for q in range(rp.randint(1, 3)):
            actors["main"].append({"op": "recv", "i": 0, "name": "p.m.%d" % q})
    actors["main"].append({"op": "spawn", "actor": "stepper"})
    for p in range(nprod):
        actors["main"].append({"op": "spawn", "actor": "p%d" % p})
        ops = []
        for q in range(rp.randint(1, 8)):
            r = rp.random()
            if r < 0.25:
                ops.append({"op": "sleep", "ms": rp.choice([1, 1, 2, 7, 50])})
            elif r < 0.4:
                ops.append({"op": "yield"})
            ops.append({"op": "recv", "i": 0, "name": "p.%d.%d" % (p, q)})
        actors["p%d" % p] = ops
    for p in range(nprod):
        actors["main"].append({"op": "join", "actor": "p%d" % p})
    # bounded liveness once the producers are done: 300 further steps (or quiescence) must have processed everything
    total_events = sum(1 for a in actors if a.startswith("p") or a == "main" for o in actors[a] if o["op"] == "recv")
    drain_steps = total_events * (nraise + neps + 6) + 200
    actors["main"].append({"op": "drain", "i": 0, "n": drain_steps})
    actors["main"].append({"op": "recv", "i": 0, "name": "quit"})
    actors["stepper"] = [{"op": "run", "i": 0, "block": block, "until": ["FINISHED"], "max": 40000 if block == 0 else 4000}]
    pols = ["random", "random", "sticky"] if block == 0 else ["random", "random", "sticky", "pct"]
    sched = {"seed": rs.getrandbits(31), "policy": rs.choice(pols), "sticky_p": rs.choice([0.5, 0.8, 0.9]),
             "pct_d": rs.randint(1, 5), "pct_horizon": rs.choice([100, 400, 1500]),
             "time_adv_p": rs.choice([0, 0.02, 0.1]), "spurious_p": rs.choice([0, 0.01, 0.05]),
             "stall_p": rs.choice([0, 0, 0.02]), "stall_len": rs.choice([5, 40]), "max_decisions": 400000}
    return {"id": k, "seed": seed, "entropy_seed": seed & 0x7fffffff, "sched": sched,
            "charts": {"main": root.xml()}, "actors": actors}


def eventless_sources(xml):
    r = ET.fromstring(xml)
    out = set()
    for e in r.iter():
        if e.get("id"):
            for t in e.findall(NS + "transition"):
                if t.get("event") is None and t.get("cond") is None:
                    out.add(e.get("id"))
    return out


def guarded_eventless(xml):
    """(source, state named by the In() guard) of the watcher region's eventless transitions"""
    import re
    r = ET.fromstring(xml)
    out = []
    for e in r.iter():
        if e.get("id"):
            for t in e.findall(NS + "transition"):
                m = re.match(r"In\('(\w+)'\)$", t.get("cond") or "")
                if t.get("event") is None and m:
                    out.append((e.get("id"), m.group(1)))
    return out


def oracle(plan, res):
    v = hard_failures(res, PROP)
    info = {"nontrivial": False, "sent": 0, "overlaps": 0}
    if res.end is None or res.failed_hard():
        return v, info
    lines = res.lines
    b = Bindings(lines)
    extq, intq = b.ext.get("i0"), b.int.get("i0")
    eps = eventless_sources(plan["charts"]["main"])
    geps = guarded_eventless(plan["charts"]["main"])
    actors = plan["actors"]
    # sends: (name, invoke seq, return seq, task)
    sends = {}
    open_ops = {}
    for r in lines:
        kd = r[KIND]
        if kd == "op<" and r[6] == "recv":
            try:
                name = actors[r[SESS]][r[5]]["name"]
            except Exception:
                continue
            open_ops[(r[TASK], r[5])] = (name, r[SEQ])
        elif kd == "op>" and r[6] == "recv":
            key = (r[TASK], r[5])
            if key in open_ops:
                name, s0 = open_ops.pop(key)
                sends[name] = (s0, r[SEQ], r[TASK])
    info["sent"] = len(sends)
    processed = []   # (name, seq)
    int_enq, int_deq = [], []
    finished = False
    last_cfg = ""
    deq_open = None
    intervals = []   # (task, s0, s1, kind)
    enq_open = {}
    for r in lines:
        kd = r[KIND]
        if kd == "ev" and r[SESS] == "i0":
            e = r[5]
            if e.get("type") == 2 and (e["name"].startswith("p.") or e["name"] == "quit"):
                processed.append((e["name"], r[SEQ]))
        elif kd == "enq<" and r[SESS] == intq:
            int_enq.append(r[6]["name"])
        elif kd == "enq<" and r[SESS] == extq:
            enq_open[r[TASK]] = r[SEQ]
        elif kd == "enq>" and r[SESS] == extq:
            if r[TASK] in enq_open:
                intervals.append((r[TASK], enq_open.pop(r[TASK]), r[SEQ]))
        elif kd == "deq<" and r[SESS] == extq:
            deq_open = r[SEQ]
        elif kd == "deq>" and r[SESS] == intq:
            if r[6]["name"]:
                int_deq.append(r[6]["name"])
                cfgs = set(last_cfg.split())
                bad = [(a, g) for (a, g) in geps if a in cfgs and g in cfgs]
                if bad:
                    v.append(("C08.macrostep", "internal event %s dequeued while the guarded eventless transition of %s (In('%s')) was enabled in configuration %s" % (
                        r[6]["name"], bad[0][0], bad[0][1], last_cfg)))
        elif kd == "deq>" and r[SESS] == extq:
            if deq_open is not None:
                intervals.append((r[TASK], deq_open, r[SEQ]))
                deq_open = None
            if r[6]["name"]:
                if len(int_enq) != len(int_deq):
                    v.append(("C08.macrostep", "external event %s dequeued while %d internal events were still pending" % (r[6]["name"], len(int_enq) - len(int_deq))))
                bad = set(last_cfg.split()) & eps
                if bad:
                    v.append(("C08.macrostep", "external event %s dequeued while an eventless transition was enabled in %s" % (r[6]["name"], sorted(bad))))
                cfgs = set(last_cfg.split())
                bad = [(a, g) for (a, g) in geps if a in cfgs and g in cfgs]
                if bad:
                    v.append(("C08.macrostep", "external event %s dequeued while the guarded eventless transition of %s (In('%s')) was enabled in configuration %s" % (
                        r[6]["name"], bad[0][0], bad[0][1], last_cfg)))
        elif kd == "st" and r[SESS] == "i0":
            if r[6]:
                last_cfg = r[6]
            if r[5] == "FINISHED":
                finished = True
    if int_deq != int_enq[:len(int_deq)]:
        v.append(("C08.internal-order", "internal events processed %s but raised %s" % (int_deq[:12], int_enq[:12])))
    names = [n for (n, s) in processed]
    seen = {}
    for n in names:
        seen[n] = seen.get(n, 0) + 1
    for n, c in seen.items():
        if c > 1:
            v.append(("C08.exactly-once", "event %s processed %d times" % (n, c)))
        if n not in sends and n != "quit":
            v.append(("C08.exactly-once", "event %s processed but never sent" % n))
    if finished and "quit" in seen:
        for n in sends:
            if n not in seen:
                v.append(("C08.exactly-once", "event %s was handed to receive() (which returned) before quit, but was never processed" % n))
    # bounded liveness: everything handed over before the drain must be processed before quit is even sent
    drain_done = None
    quit_sent = None
    for r in lines:
        if r[KIND] == "op>" and r[6] == "drain":
            drain_done = r[SEQ]
        if r[KIND] == "op<" and r[6] == "recv" and r[SESS] == "main":
            quit_sent = r[SEQ]
    if drain_done is not None and quit_sent is not None:
        seqof = {n: s for (n, s) in processed}
        for n, (s0, s1, task) in sends.items():
            if n != "quit" and s1 < drain_done and (n not in seqof or seqof[n] > quit_sent):
                v.append(("C08.stranded", "event %s was handed to receive() (returned at seq %d), the interpreter then made enough further steps for every queued event or went quiescent (seq %d), yet the event was not processed before the next event was sent" % (n, s1, drain_done)))
                break
    # per-sender order and real-time FIFO
    pos = {n: i for i, (n, s) in enumerate(processed)}
    snames = [n for n in sends if n in pos]
    for a in snames:
        for c in snames:
            if a == c:
                continue
            if sends[a][1] < sends[c][0] and pos[a] > pos[c]:
                rule = "C08.sender-order" if sends[a][2] == sends[c][2] else "C08.fifo"
                v.append((rule, "receive(%s) returned (seq %d) before receive(%s) was invoked (seq %d), but %s was processed first" % (a, sends[a][1], c, sends[c][0], c)))
    # contention probe
    for i in range(len(intervals)):
        for j in range(i + 1, len(intervals)):
            a, c = intervals[i], intervals[j]
            if a[0] != c[0] and a[1] < c[2] and c[1] < a[2]:
                info["overlaps"] += 1
    info["nontrivial"] = info["overlaps"] > 0
    return v[:6], info


def evaluate(plan, usim):
    return oracle(plan, usim.run(plan))[0]


def run_one(ctx, usim, seed, k, acc):
    plan = gen_plan(seed, k)
    res = usim.run(plan)
    v, info = oracle(plan, res)
    end = res.end or {}
    acc.sim_ms += end.get("sim_ms", 0)
    acc.decisions += end.get("decisions", 0)
    acc.count("pol." + plan["sched"]["policy"])
    acc.count("fault.adversarial_time_advance", end.get("adv_time", 0))
    acc.count("fault.spurious_wakeup", end.get("spurious", 0))
    acc.count("fault.task_stall", end.get("stalls", 0))
    acc.count("fault.preemption_switches", end.get("switches", 0))
    acc.count("probe.overlapping_queue_operations", info["overlaps"])
    acc.count("events_sent", info["sent"])
    acc.count("stepper_block_%s" % plan["actors"]["stepper"][0]["block"])
    if info["nontrivial"] and end.get("sched_hash"):
        acc.hashes.add(end["sched_hash"])
    if k % 100 == 7 and not res.failed_hard():
        res2 = usim.run(plan)
        acc.recheck_n += 1
        if res2.trace_hash != res.trace_hash:
            acc.recheck_mismatch += 1
    for (rule, detail) in v:
        acc.violations.append({"rule": rule, "detail": detail, "plan": plan, "k": k})
        break
    if len(acc.samples) < 1 and info["nontrivial"] and k < 64:
        acc.samples.append({"run": k, "seed": seed, "chart": plan["charts"]["main"], "actors": plan["actors"], "sched": plan["sched"],
                            "overlaps": info["overlaps"], "trace_tail": tail(res.lines, 10)})


def classify(rule, detail, plan):
    return None
