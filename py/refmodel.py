"""Executable reference model: a direct transcription of the W3C SCXML 1.0
Recommendation, Appendix D (interpret, mainEventLoop, selectTransitions,
removeConflictingTransitions, computeExitSet, computeEntrySet,
addDescendantStatesToEnter, addAncestorStatesToEnter, isInFinalState,
getTransitionDomain, findLCCA, enterStates/exitStates with history recording
and done events) over the El tree of scx.py.  Ordered sets, document-order
tie-breaking, its own integer datamodel and queues.  No code shared with /repo.

The model is driven *by the implementation's observed schedule of events*
(which external event was dequeued when) but decides everything else itself;
it emits the same token stream the recorder yields for the implementation:
  ("x", id) exit   ("e", id) entry   ("t", xpath) transition taken
  ("c", xpath) executable element started   ("l", label, value) <log>
  ("r", name) internal event raised   ("s", name, delay, sendid) external send
  ("k", sendid) cancel
"""
from scx import El

STATE_TAGS = ("state", "parallel", "final")


class ModelError(Exception):
    pass


class ExecError(Exception):
    """error.execution inside executable content (aborts the block)"""

    def __init__(self, name="error.execution"):
        Exception.__init__(self, name)
        self.name = name


def name_match(descriptors, name):
    """Recommendation 3.12.1"""
    for d in descriptors.split():
        if d == "*":
            return True
        if d.endswith(".*"):
            d = d[:-2]
        elif d.endswith("."):
            d = d[:-1]
        if d == name:
            return True
        if name.startswith(d + "."):
            return True
    return False


class Model(object):
    def __init__(self, root, fail_elems=None, variant=(), fail_occ=None):
        # variant: deviations from Appendix D that reproduce known findings of the implementation;
        # only used to *classify* a divergence, never to accept one
        self.variant = set(variant)
        self.root = root
        self.fail_elems = fail_elems or set()   # xpaths of elements that fail with error.execution (C07)
        # transient faults (C07 mode T): xpath -> {n-th execution of the element: None, or for <if> the index of the
        # if/elseif head whose condition failed}
        self.fail_occ = fail_occ or {}
        self.exec_n = {}
        self.binding = root.attrs.get("binding", "early")
        self.states = []         # all state-like elements incl. history, document order
        self.order = {}
        self.by_id = {}
        n = 0
        for e in root.walk():
            if e.tag in STATE_TAGS or e.tag in ("history", "initial"):
                # states nested in <content> (invoked children) are not ours
                p = e.parent
                inside_content = False
                while p is not None:
                    if p.tag == "content":
                        inside_content = True
                    p = p.parent
                if inside_content:
                    continue
                self.order[id(e)] = n
                n += 1
                self.states.append(e)
                if "id" in e.attrs:
                    self.by_id[e.attrs["id"]] = e
        self.configuration = []   # ordered set of state elements
        self.history_value = {}
        self.iq = []              # internal queue: names
        self.pending_ext = []     # [name, sendid, delivered?]  events the chart itself sent to its external queue
        self.data = {}
        self.running = True
        self.first_entry = set()
        self.tokens = []

    # ---- structure helpers ----------------------------------------------------------
    def is_state(self, e):
        return e.tag in STATE_TAGS

    def child_states(self, s):
        return [c for c in s.children if c.tag in STATE_TAGS]

    def is_atomic(self, s):
        return s.tag in STATE_TAGS and not self.child_states(s)

    def is_compound(self, s):
        return s.tag == "state" and bool(self.child_states(s))

    def is_parallel(self, s):
        return s.tag == "parallel"

    def is_final(self, s):
        return s.tag == "final"

    def is_history(self, s):
        return s.tag == "history"

    def parent_state(self, s):
        return s.parent

    def proper_ancestors(self, s, upto):
        """ancestors of s in ancestry order (parent first) up to but not including upto; upto None: up to and including <scxml>"""
        out = []
        p = s.parent
        while p is not None and p is not upto:
            out.append(p)
            p = p.parent
        return out

    def is_descendant(self, s, anc):
        p = s.parent
        while p is not None:
            if p is anc:
                return True
            p = p.parent
        return False

    def doc_sorted(self, lst, reverse=False):
        return sorted(lst, key=lambda e: self.order[id(e)], reverse=reverse)

    def sid(self, s):
        return s.attrs.get("id", "#" + s.xpath())

    def transitions_of(self, s):
        return [c for c in s.children if c.tag == "transition"]

    def targets_of(self, t):
        out = []
        for name in t.attrs.get("target", "").split():
            if name not in self.by_id:
                raise ModelError("unknown target " + name)
            out.append(self.by_id[name])
        return out

    def initial_targets(self, s):
        """(targets, content-transition-or-None) for a compound state or <scxml>"""
        for c in s.children:
            if c.tag == "initial":
                tr = [x for x in c.children if x.tag == "transition"][0]
                return self.targets_of(tr), tr
        if "initial" in s.attrs:
            return [self.by_id[n] for n in s.attrs["initial"].split()], None
        kids = self.child_states(s)
        return ([kids[0]] if kids else []), None

    # ---- datamodel --------------------------------------------------------------------
    def ev(self, ast):
        k = ast[0]
        if k == "num":
            return ast[1]
        if k == "var":
            if ast[1] not in self.data:
                raise ExecError()
            return self.data[ast[1]]
        if k == "true":
            return True
        if k == "false":
            return False
        if k == "in":
            return any(self.sid(s) == ast[1] for s in self.configuration)
        if k == "not":
            return not self.ev(ast[1])
        if k == "evname":
            if getattr(self, "cur_event", None) is None:
                raise ModelError("_event read before any event")
            return self.cur_event
        a, b = self.ev(ast[1]), self.ev(ast[2])
        if k == "add":
            return a + b
        if k == "sub":
            return a - b
        if k == "lt":
            return a < b
        if k == "le":
            return a <= b
        if k == "eq":
            return a == b
        if k == "ne":
            return a != b
        if k == "and":
            return bool(a) and bool(b)
        if k == "or":
            return bool(a) or bool(b)
        raise ModelError("bad ast " + repr(ast))

    def cond(self, t):
        ast = t.meta.get("cond_ast")
        if ast is None:
            return True
        if t.xpath() in self.fail_elems:
            self.iq.append("error.execution")
            return False
        try:
            return bool(self.ev(ast))
        except ExecError:
            self.iq.append("error.execution")
            return False

    def init_data(self, scope):
        for dmel in [c for c in scope.children if c.tag == "datamodel"]:
            for d in dmel.children:
                if d.tag == "data":
                    if d.xpath() in self.fail_elems:
                        name = self.fail_elems[d.xpath()] if isinstance(self.fail_elems, dict) else "error.execution"
                        self.iq.append(name)
                        self.tokens.append(("r", name))
                        continue
                    ast = d.meta.get("expr_ast")
                    self.data[d.attrs["id"]] = self.ev(ast) if ast is not None else 0

    # ---- executable content -------------------------------------------------------------
    def execute_block(self, block):
        """block: an element whose children are executable content; errors abort the rest of the block"""
        try:
            for c in block.children:
                self.execute(c)
        except ExecError:
            pass

    def raise_internal(self, name):
        self.iq.append(name)
        self.tokens.append(("r", name))

    def execute(self, e):
        tag = e.tag
        if tag in ("datamodel", "transition", "state", "parallel", "final", "history", "initial", "onentry", "onexit", "invoke", "donedata"):
            return
        self.tokens.append(("c", e.xpath()))
        nth = self.exec_n[e.xpath()] = self.exec_n.get(e.xpath(), 0) + 1
        occ = self.fail_occ.get(e.xpath(), {})
        if nth in occ and tag != "if":
            self.raise_internal("error.execution")
            raise ExecError()
        if e.xpath() in self.fail_elems and tag != "if":
            self.raise_internal(self.fail_elems[e.xpath()] if isinstance(self.fail_elems, dict) else "error.execution")
            raise ExecError()
        if tag == "raise":
            self.raise_internal(e.attrs["event"])
        elif tag == "log":
            ast = e.meta.get("expr_ast")
            val = None
            if ast is not None:
                try:
                    val = self.ev(ast)
                except ExecError:
                    self.raise_internal("error.execution")
                    raise
            self.tokens.append(("l", e.attrs.get("label", ""), val))
        elif tag == "assign":
            try:
                if e.meta["var"] not in self.data:
                    raise ExecError()
                self.data[e.meta["var"]] = self.ev(e.meta["expr_ast"])
            except ExecError:
                self.raise_internal("error.execution")
                raise
        elif tag == "send":
            target = e.attrs.get("target", "")
            name = e.attrs["event"]
            delay = e.meta.get("delay", 0)
            if target == "#_internal" and not delay:
                self.raise_internal(name)
            elif target == "#_internal":
                # delivered to the internal queue by the timer, asynchronously: from the model's point of view one more
                # event that arrives from outside at a later time
                self.pending_ext.append([name, e.attrs.get("id", ""), False, "int"])
                self.tokens.append(("s", name, delay, e.attrs.get("id", "")))
            else:
                self.pending_ext.append([name, e.attrs.get("id", ""), False])
                self.tokens.append(("s", name, delay, e.attrs.get("id", "")))
        elif tag == "cancel":
            sid = e.attrs.get("sendid", "")
            self.tokens.append(("k", sid))
            for p in self.pending_ext:
                if p[1] == sid and not p[2] and p[3:] != ["nodelay"]:
                    p[2] = "cancelled"
        elif tag == "if":
            # flat structure: children partitioned by <elseif>/<else>
            branches = []
            cur = [e, []]
            for c in e.children:
                if c.tag in ("elseif", "else"):
                    branches.append(cur)
                    cur = [c, []]
                else:
                    cur[1].append(c)
            branches.append(cur)
            for hidx, (head, body) in enumerate(branches):
                if head.tag == "else":
                    ok = True
                else:
                    ast = head.meta.get("cond_ast")
                    if head.xpath() in self.fail_elems or (nth in occ and occ[nth] == hidx):
                        # a failing condition raises error.execution and counts as false; the block goes on
                        self.raise_internal("error.execution")
                        ok = False
                    else:
                        try:
                            ok = bool(self.ev(ast)) if ast is not None else True
                        except ExecError:
                            self.raise_internal("error.execution")
                            ok = False
                if ok:
                    for c in body:
                        self.execute(c)
                    break
        elif tag == "script":
            pass
        else:
            raise ModelError("unsupported executable content <%s>" % tag)

    # ---- Appendix D ---------------------------------------------------------------------
    def start(self):
        """interpret(): datamodel, then enterStates([doc.initial.transition]); returns tokens of the initial microstep"""
        self.tokens = []
        if self.binding == "early":
            for e in [self.root] + self.states:
                if e is self.root or self.is_state(e):
                    self.init_data(e)
        else:
            self.init_data(self.root)
        targets, tr = self.initial_targets(self.root)
        fake = El("transition", {"target": " ".join(self.sid(t) for t in targets)})
        fake.parent = self.root
        self.enter_states([fake], initial_doc=True)
        return self.take_tokens()

    def take_tokens(self):
        t = self.tokens
        self.tokens = []
        return t

    def atomic_config(self):
        return self.doc_sorted([s for s in self.configuration if self.is_atomic(s)])

    def postfix_index(self, t):
        """position of a transition in post-order of the state tree (children before parents)"""
        if not hasattr(self, "_pfx"):
            self._pfx = {}
            n = [0]

            def walk(s):
                for c in s.children:
                    if c.tag in STATE_TAGS:
                        walk(c)
                for tr in self.transitions_of(s):
                    self._pfx[id(tr)] = n[0]
                    n[0] += 1
            walk(self.root)
        return self._pfx.get(id(t), 0)

    def matches(self, t, event):
        if event is None:
            return "event" not in t.attrs and self.cond(t)
        return "event" in t.attrs and name_match(t.attrs["event"], event) and self.cond(t)

    def select_alt_after_preempt(self, event):
        """variant: like the implementation, a transition that conflicts with an already selected one is skipped
        *before* it is tested, and the search goes on with the next transition of the same state"""
        selected = []
        found_at = set()
        reached = {}

        def reaches(s):
            if id(s) in reached:
                return reached[id(s)]
            kids = [c for c in self.child_states(s) if c in self.configuration]
            r = (not kids) or any(id(c) not in found_at and reaches(c) for c in kids)
            reached[id(s)] = r
            return r
        order = []

        def walk(s):
            for c in self.child_states(s):
                walk(c)
            if s is not self.root and s in self.configuration:
                order.append(s)
        walk(self.root)
        for s in order:
            if not reaches(s):
                continue
            for t in self.transitions_of(s):
                if (event is None) != ("event" not in t.attrs):
                    continue
                e1 = self.compute_exit_set([t])
                if any(any(x in self.compute_exit_set([t2]) for x in e1) for t2 in selected):
                    continue
                if self.matches(t, event):
                    selected.append(t)
                    found_at.add(id(s))
                    break
        return selected

    def select(self, event):
        """selectTransitions / selectEventlessTransitions (event None)"""
        if event is not None:
            self.cur_event = event
        if "alt_after_preempt" in self.variant:
            sel = self.select_alt_after_preempt(event)
            return sorted(sel, key=self.postfix_index)
        sel = self._select(event)
        if "postfix_order" in self.variant:
            sel = sorted(sel, key=self.postfix_index)
        return sel

    def _select(self, event):
        enabled = []
        for state in self.atomic_config():
            done = False
            for s in [state] + [a for a in self.proper_ancestors(state, None) if a is not self.root]:
                for t in self.transitions_of(s):
                    if event is None:
                        ok = "event" not in t.attrs and self.cond(t)
                    else:
                        ok = "event" in t.attrs and name_match(t.attrs["event"], event) and self.cond(t)
                    if ok:
                        if t not in enabled:
                            enabled.append(t)
                        done = True
                        break
                if done:
                    break
        self._probe(enabled)
        return self.remove_conflicting(enabled)

    def _probe(self, enabled):
        """Reach probes (no influence on the model): how often a microstep has three or more candidate transitions,
        a preemption among them, and a conflicting pair that meets for the first time next to a pair that met before
        (the situation in which the engines' lazily filled conflict caches decide)."""
        pr = self.__dict__.setdefault("probes", {"cand3": 0, "cand3_preempt": 0, "cache_sensitive": 0})
        seen = self.__dict__.setdefault("seen_pairs", set())
        if len(enabled) >= 3:
            pr["cand3"] += 1
            ex = [set(id(x) for x in self.compute_exit_set([t])) for t in enabled]
            conf = [(i, j) for i in range(len(enabled)) for j in range(i + 1, len(enabled)) if ex[i] & ex[j]]
            if conf:
                pr["cand3_preempt"] += 1
                for (i, j) in conf:
                    if (id(enabled[i]), id(enabled[j])) in seen:
                        continue
                    if any((id(enabled[b]), id(enabled[j])) in seen for b in range(j) if b != i):
                        pr["cache_sensitive"] += 1
                        break
        for i in range(len(enabled)):
            for j in range(i + 1, len(enabled)):
                seen.add((id(enabled[i]), id(enabled[j])))

    def remove_conflicting(self, enabled):
        filtered = []
        for t1 in enabled:
            preempted = False
            to_remove = []
            for t2 in filtered:
                e1 = self.compute_exit_set([t1])
                e2 = self.compute_exit_set([t2])
                if any(s in e2 for s in e1):
                    if self.is_descendant(t1.parent, t2.parent):
                        to_remove.append(t2)
                    else:
                        preempted = True
                        break
            if not preempted:
                for t3 in to_remove:
                    filtered.remove(t3)
                filtered.append(t1)
        return filtered

    def effective_targets(self, t):
        out = []
        for s in self.targets_of(t):
            if self.is_history(s):
                hv = self.hist_get(s)
                if hv:
                    for x in hv:
                        if x not in out:
                            out.append(x)
                else:
                    tr = self.transitions_of(s)[0]
                    for x in self.effective_targets(tr):
                        if x not in out:
                            out.append(x)
            else:
                if s not in out:
                    out.append(s)
        return out

    def transition_domain(self, t):
        tstates = self.effective_targets(t)
        if not tstates:
            return None
        src = t.parent
        if t.attrs.get("type") == "internal" and self.is_compound(src) and all(self.is_descendant(s, src) for s in tstates):
            return src
        return self.find_lcca([src] + tstates)

    def find_lcca(self, lst):
        head = lst[0]
        for anc in self.proper_ancestors(head, None):
            if anc is self.root or self.is_compound(anc):
                if all(self.is_descendant(s, anc) for s in lst[1:]):
                    return anc
        return self.root

    def compute_exit_set(self, transitions):
        out = []
        for t in transitions:
            if t.attrs.get("target"):
                domain = self.transition_domain(t)
                for s in self.configuration:
                    if self.is_descendant(s, domain) and s not in out:
                        out.append(s)
        return out

    def microstep(self, enabled):
        self.exit_states(enabled)
        for t in enabled:
            self.tokens.append(("t", t.xpath()))
            self.execute_block(t)
        self.enter_states(enabled)
        return self.take_tokens()

    def exit_states(self, enabled):
        to_exit = self.doc_sorted(self.compute_exit_set(enabled), reverse=True)
        for s in to_exit:
            for h in [c for c in s.children if c.tag == "history"]:
                if h.attrs.get("type") == "deep":
                    self.history_value[id(h)] = [x for x in self.configuration if self.is_atomic(x) and self.is_descendant(x, s)]
                else:
                    self.history_value[id(h)] = [x for x in self.configuration if x.parent is s]
        if "shared_history" in self.variant:
            # like the engines: one set of remembered states for the whole document; each history of an exited state clears
            # the part it covers (deep: all descendants of its parent) and sets what is active there - so an outer deep history
            # wipes what an inner history of a currently inactive state had remembered
            hb = self.__dict__.setdefault("hbits", set())
            for h in [e for e in self.root.walk() if e.tag == "history" and e.parent in to_exit]:
                comp = self.hist_completion(h)
                for x in comp:
                    hb.discard(id(x))
                for x in comp:
                    if x in self.configuration:
                        hb.add(id(x))
        for s in to_exit:
            self.tokens.append(("x", self.sid(s)))
            for blk in [c for c in s.children if c.tag == "onexit"]:
                self.execute_block(blk)
            self.configuration.remove(s)

    def enter_states(self, enabled, initial_doc=False):
        to_enter = []
        default_entry = []
        default_hist = {}
        for t in enabled:
            for s in self.targets_of(t):
                self.add_descendants(s, to_enter, default_entry, default_hist)
            anc = self.root if initial_doc else self.transition_domain(t)
            for s in self.effective_targets(t):
                self.add_ancestors(s, anc, to_enter, default_entry, default_hist)
        for s in self.doc_sorted(to_enter):
            self.configuration.append(s)
            self.tokens.append(("e", self.sid(s)))
            if self.binding == "late" and id(s) not in self.first_entry:
                self.first_entry.add(id(s))
                self.init_data(s)
            for blk in [c for c in s.children if c.tag == "onentry"]:
                self.execute_block(blk)
            # the implementation reports <initial> and history default transitions as taken
            # transitions after the parent's entry; same tokens here (observation format only)
            if s in default_entry:
                targets, tr = self.initial_targets(s)
                if tr is not None:
                    self.tokens.append(("t", tr.xpath()))
                    self.execute_block(tr)
            if id(s) in default_hist:
                self.tokens.append(("t", default_hist[id(s)].xpath()))
                self.execute_block(default_hist[id(s)])
            if self.is_final(s):
                if s.parent is self.root:
                    self.running = False
                else:
                    parent = s.parent
                    grand = parent.parent
                    self.raise_internal("done.state." + self.sid(parent))
                    if "done_all_leaves" in self.variant:
                        # like the engines: every parallel ancestor (innermost first) is reported done when all its regions are
                        # active and every active leaf below it is a <final> - a region whose active child is a completed
                        # nested parallel counts as final, which isInFinalState of Appendix D does not allow
                        anc = []
                        a = parent.parent
                        while a is not None and a is not self.root:
                            if self.is_parallel(a):
                                anc.append(a)
                            a = a.parent
                        for j in anc:
                            regions = self.child_states(j)
                            if not all(c in self.configuration for c in regions):
                                continue
                            leaves = [x for x in self.configuration if self.is_descendant(x, j) and not any(c in self.configuration for c in self.child_states(x))]
                            if leaves and all(self.is_final(x) for x in leaves):
                                self.raise_internal("done.state." + self.sid(j))
                    elif grand is not None and grand is not self.root and self.is_parallel(grand):
                        if all(self.in_final_state(c) for c in self.child_states(grand)):
                            self.raise_internal("done.state." + self.sid(grand))

    def in_final_state(self, s):
        if self.is_compound(s):
            return any(self.is_final(c) and c in self.configuration for c in self.child_states(s))
        if self.is_parallel(s):
            return all(self.in_final_state(c) for c in self.child_states(s))
        return False

    def hist_completion(self, h):
        if h.attrs.get("type") == "deep":
            return [x for x in h.parent.walk() if x is not h.parent and x.tag in ("state", "parallel", "final")]
        return [x for x in h.parent.children if x.tag in ("state", "parallel", "final")]

    def hist_get(self, h):
        if "shared_history" not in self.variant:
            return self.history_value.get(id(h))
        hb = self.__dict__.get("hbits", set())
        rem = [x for x in self.hist_completion(h) if id(x) in hb]
        if h.attrs.get("type") == "deep":
            return [x for x in rem if not any(c in rem for c in x.children)]
        return rem

    def add_descendants(self, state, to_enter, default_entry, default_hist):
        if self.is_history(state):
            hv = self.hist_get(state)
            if hv:
                for s in hv:
                    self.add_descendants(s, to_enter, default_entry, default_hist)
                for s in hv:
                    self.add_ancestors(s, state.parent, to_enter, default_entry, default_hist)
            else:
                tr = self.transitions_of(state)[0]
                default_hist[id(state.parent)] = tr
                for s in self.targets_of(tr):
                    self.add_descendants(s, to_enter, default_entry, default_hist)
                for s in self.targets_of(tr):
                    self.add_ancestors(s, state.parent, to_enter, default_entry, default_hist)
        else:
            if state not in to_enter:
                to_enter.append(state)
            if self.is_compound(state):
                if state not in default_entry:
                    default_entry.append(state)
                targets, tr = self.initial_targets(state)
                for s in targets:
                    self.add_descendants(s, to_enter, default_entry, default_hist)
                for s in targets:
                    self.add_ancestors(s, state, to_enter, default_entry, default_hist)
            elif self.is_parallel(state):
                for child in self.child_states(state):
                    if not any(self.is_descendant(s, child) for s in to_enter):
                        self.add_descendants(child, to_enter, default_entry, default_hist)

    def add_ancestors(self, state, ancestor, to_enter, default_entry, default_hist):
        for anc in self.proper_ancestors(state, ancestor):
            if anc is self.root:
                continue
            if anc not in to_enter:
                to_enter.append(anc)
            if self.is_parallel(anc):
                for child in self.child_states(anc):
                    if not any(self.is_descendant(s, child) for s in to_enter):
                        self.add_descendants(child, to_enter, default_entry, default_hist)

    def exit_interpreter(self):
        """exitInterpreter(): onexit of all active states in reverse document order"""
        for s in self.doc_sorted(self.configuration, reverse=True):
            self.tokens.append(("X", self.sid(s)))
            for blk in [c for c in s.children if c.tag == "onexit"]:
                self.execute_block(blk)
        return self.take_tokens()

    def config_ids(self):
        return [self.sid(s) for s in self.doc_sorted(self.configuration)]
