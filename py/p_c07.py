"""C07 — Errors become error events, never crashes.

(A) For generated charts and histories one really failing element (ill-formed
expression, unknown function, send with unsupported type / malformed target /
unknown invoke id, failing <if> condition, failing <data>) is planted at a
random position of a random executable block; the run is compared step by
step with the reference model, which is told which element fails: the error
event must be raised in order, the rest of that block skipped, everything
else executed, the interpreter keeps running.
(B) Seeded mutations of generated charts (attribute removal, element
transplant, vocabulary swap) are loaded and stepped under crash containment,
partly in the AddressSanitizer/UBSan flavour.  See DESIGN.md 6/C07.
"""
import json
import xml.etree.ElementTree as ET

import gen
import refine
import oracles
import p_c01
import usimlib
from tracelib import *

PROP = "C07"
LEVEL = "fault_enumeration"
FLAVOUR = "plain"
FLAVOURS = ["plain", "san"]
TIERS = {"quick": (14000, 170), "thorough": (900000, 3300)}
RULE_TEXT = ("one run = (A) one generated chart with one planted failing element (kind and position drawn from every executable block: onentry, onexit, transition, "
             "initial/history transition, nested <if>, <data>, or the guard of a transition) x one event history, refined against the reference model that knows the failing element, or "
             "(B) one seeded XML mutation of a generated chart loaded and stepped under crash containment; a third of the runs use the ASan+UBSan build; "
             "non-trivial = (A) the planted element was actually executed, (B) the mutated document was accepted by the XML parser and stepped; "
             "distinct = distinct document content hashes among non-trivial runs")
ASSUMPTIONS = [
    "fault positions are sampled per run (one position per run), not enumerated exhaustively within a chart",
    "failing transition conditions are not planted (the number of evaluations is engine-specific); failing <if>/<elseif> conditions are",
    "delayed sends to unreachable targets are covered by C11 (their error event arrives asynchronously)",
]


COMPONENTS_REAL_EXTRA = []
COMPONENTS_SIM_EXTRA = ['in mode T the datamodel seam: FaultyDataModel forwards to the real Lua/Promela datamodel and fails seeded calls']


class Context(object):
    def __init__(self, prop, tier, opts):
        self.opts = opts


def mutate_xml(xml, r):
    """seeded structural mutation; result is well-formed XML built from SCXML vocabulary"""
    ET.register_namespace("", "http://www.w3.org/2005/07/scxml")
    root = ET.fromstring(xml)
    elems = list(root.iter())
    NS = "{http://www.w3.org/2005/07/scxml}"
    dm = root.get("datamodel", "null")
    for _ in range(r.randint(1, 3)):
        kind = r.choice(["delattr", "delattr", "move", "dup", "retag", "setattr", "delelem", "emptyattr", "exotic"])
        e = r.choice(elems)
        if kind == "exotic":
            # valid constructs the chart generator does not produce: arrays and <foreach> (declared with and without a
            # value), <script>, <donedata> with <param>/<content>, <content> in <send>; put where they are executed
            blocks = [x for x in elems if x.tag in (NS + "onentry", NS + "onexit", NS + "transition")]
            finals = [x for x in elems if x.tag == NS + "final"]
            dmel = root.find(NS + "datamodel")
            if dmel is None and dm != "null":
                dmel = ET.Element(NS + "datamodel")
                root.insert(0, dmel)
            what = r.choice(["foreach", "foreach", "script", "donedata", "sendcontent"])
            if what == "foreach" and dm != "null" and blocks and dmel is not None:
                arr = "arr%d" % r.randint(0, 9)
                if dm == "promela":
                    at = {"id": arr, "type": "int[%d]" % r.randint(1, 3)}
                    if r.random() < 0.5:
                        at["expr"] = "[" + ",".join(str(r.randint(0, 3)) for _ in range(r.randint(0, 4))) + "]"
                    ET.SubElement(dmel, NS + "data", at)
                    for v in ("it", "ix"):
                        ET.SubElement(dmel, NS + "data", {"id": v, "type": "int", "expr": "0"})
                else:
                    ET.SubElement(dmel, NS + "data", {"id": arr, "expr": r.choice(["{1,2,3}", "{}", "nil", "5", "{a=1}"])})
                fe = ET.Element(NS + "foreach", {"array": r.choice([arr, arr, "nosucharray"]), "item": "it", "index": "ix"})
                ET.SubElement(fe, NS + "log", {"label": "fe", "expr": r.choice(["it", "ix", arr + "[ix]", arr + "[it]", arr + "[0 - 1]", arr + "[99]"]) if dm == "promela" else r.choice(["it", "ix", arr + "[ix]"])})
                blk = r.choice(blocks)
                blk.insert(r.randint(0, len(blk)), fe)
            elif what == "script" and dm == "lua" and blocks:
                sc = ET.Element(NS + "script")
                sc.text = r.choice(["g = (g or 0) + 1", "local t = {} t[1] = nil", "error('boom')", "x = ", "return 1"])
                blk = r.choice(blocks)
                blk.insert(r.randint(0, len(blk)), sc)
            elif what == "donedata" and finals:
                dd = ET.SubElement(r.choice(finals), NS + "donedata")
                if r.random() < 0.5:
                    ET.SubElement(dd, NS + "param", {"name": "p", "expr": r.choice(["1", "nosuchvar", "1 +"])})
                else:
                    c = ET.SubElement(dd, NS + "content")
                    c.text = r.choice(["plain text", "{ \"a\": 1 }", "<unclosed"])
            elif what == "sendcontent" and blocks:
                sd = ET.Element(NS + "send", {"event": "withcontent"})
                c = ET.SubElement(sd, NS + "content")
                c.text = r.choice(["text", "{ \"k\": [1,2] }", ""])
                blk = r.choice(blocks)
                blk.insert(r.randint(0, len(blk)), sd)
            elems = list(root.iter())
            continue
        if kind == "delattr" and e.attrib:
            del e.attrib[r.choice(sorted(e.attrib))]
        elif kind == "emptyattr" and e.attrib:
            e.attrib[r.choice(sorted(e.attrib))] = ""
        elif kind == "setattr":
            e.set(r.choice(["id", "target", "event", "cond", "expr", "initial", "type", "delay", "sendid", "location", "src", "array", "item", "index", "namelist"]),
                  r.choice(["s0", "nosuch", "a b", "1 +", "", "h0", "p0 p0", "#_x", "-1ms", "1s", "deep", "internal", "late", "\n", "s0 s0"]))
        elif kind in ("move", "dup"):
            src = r.choice(elems)
            dst = r.choice(elems)
            if src is not root and dst is not src and src not in list(dst.iter()) and dst not in list(src.iter()):
                import copy
                dst.insert(r.randint(0, len(dst)), copy.deepcopy(src))
        elif kind == "retag" and e is not root:
            ns = "{http://www.w3.org/2005/07/scxml}"
            e.tag = ns + r.choice(["state", "parallel", "final", "history", "initial", "transition", "onentry", "onexit", "raise", "send", "cancel",
                                   "assign", "log", "if", "elseif", "else", "foreach", "script", "invoke", "finalize", "content", "param", "donedata", "datamodel", "data"])
        elif kind == "delelem" and e is not root:
            for p in elems:
                if e in list(p):
                    p.remove(e)
                    break
        elems = list(root.iter())
    return ET.tostring(root, encoding="unicode")


def finalize_plan(seed, k, rp):
    """(F) a failing element inside <finalize>: an invoked child sends n events to its parent, whose finalize block is
    log F1, the failing element, log F2.  The parent stays in the invoking state (targetless transitions)."""
    dm = rp.choice(["lua", "promela"])
    bad = rp.choice(["assign", "send", "log"])
    expr = rp.choice([x for x in gen.BAD_EXPR[dm] if x not in ("7 / 0", "7 % 0")])
    if bad == "assign":
        failing = '<assign location="v0" expr="%s"/>' % expr
    elif bad == "send":
        failing = '<send event="x" type="nosuch-ioproc"/>'
    else:
        failing = '<log label="FX" expr="%s"/>' % expr
    n = rp.randint(1, 4)
    sends = "".join('<send event="e%d" target="#_parent"%s/>' % (j, (' delay="%dms"' % rp.choice([1, 2, 5])) if rp.random() < 0.5 else "") for j in range(n))
    typ = ' type="int"' if dm == "promela" else ""
    xml = ('<scxml xmlns="http://www.w3.org/2005/07/scxml" version="1.0" datamodel="%s" initial="s0"><datamodel><data id="v0" expr="1"%s/></datamodel>'
           '<state id="s0"><invoke type="scxml" id="kid"><content><scxml xmlns="http://www.w3.org/2005/07/scxml" version="1.0" datamodel="null" initial="c"><state id="c"><onentry>%s</onentry></state></scxml></content>'
           '<finalize><log label="F1" expr="v0"/>%s<log label="F2" expr="v0"/></finalize></invoke>'
           '<transition event="error"><log label="ERR" expr="v0"/></transition>'
           '<transition event="ping"><log label="PONG" expr="v0"/></transition>'
           '<transition event="*"><log label="EV" expr="v0"/></transition></state></scxml>') % (dm, typ, sends, failing)
    engine = rp.choice(["default", "large", "fast"])
    ops = [{"op": "create", "i": 0, "chart": "main", "engine": engine}]
    for _ in range(4):
        ops += [{"op": "run", "i": 0, "block": 0, "until": ["IDLE"], "max": 60}, {"op": "sleep", "ms": rp.choice([1, 3, 10])}]
    # all delayed sends of the child are due by now at the latest
    ops += [{"op": "sleep", "ms": 30}, {"op": "run", "i": 0, "block": 0, "until": ["IDLE"], "max": 60}]
    ops += [{"op": "recv", "i": 0, "name": "ping"}, {"op": "run", "i": 0, "block": 0, "until": ["IDLE"], "max": 60}]
    return {"id": k, "seed": seed, "entropy_seed": seed & 0x7fffffff, "mode": "F", "flavour": "san" if rp.random() < 0.33 else "plain", "planted": "finalize-" + bad,
            "n_child_events": n, "sched": {"seed": seed & 0x7fffffff, "policy": "nonpreempt", "max_decisions": 400000}, "step_budget": 400,
            "charts": {"main": xml}, "actors": {"main": ops}}


def finalize_oracle(plan, res, v, info):
    logs = [r[6].split(":")[0] for r in res.lines if r[KIND] == "log" and r[SESS] == "i0" and r[5] == 4]
    evs = [r[5]["name"] for r in res.lines if r[KIND] == "ev" and r[SESS] == "i0"]
    child = [e for e in evs if e.startswith("e") and e[1:].isdigit()]
    info["executed_fail"] = logs.count("F1")
    info["nontrivial"] = logs.count("F1") >= 1
    for r in res.lines:
        if r[KIND] == "exc" and r[5] == "step":
            v.append(("C07.keeps-running", "an exception left step() while a <finalize> block with a failing element ran: %s %s %s" % (r[6], r[7], r[8])))
            return
    if "F2" in logs:
        v.append(("C07.skip-rest-or-other-blocks", "the element after the failing one in <finalize> was executed (logs %s)" % logs[:12]))
    if len(child) != plan["n_child_events"]:
        v.append(("C07.keeps-running", "child sent %d events, the parent processed %s" % (plan["n_child_events"], child)))
    if logs.count("F1") != len(child) or logs.count("EV") != len(child):
        v.append(("C07.skip-rest-or-other-blocks", "finalize ran %d times and the event's own transition %d times for %d events from the child (logs %s)" % (
            logs.count("F1"), logs.count("EV"), len(child), logs[:16])))
    if len([e for e in evs if e.startswith("error.")]) != len(child):
        v.append(("C07.error-event", "%d error events for %d failing finalize executions (events %s)" % (len([e for e in evs if e.startswith("error.")]), len(child), evs[:16])))
    if "PONG" not in logs:
        v.append(("C07.keeps-running", "the interpreter did not answer an event sent after the failing finalize blocks (events %s)" % evs[:16]))


def transient_plan(seed, k, rp):
    """(T) transient datamodel failures: the real datamodel behind a decorator that makes seeded calls issued from executable
    content fail with error.execution (FaultyDataModel in the harness); the chart itself has no failing element"""
    dm = rp.choice(["lua", "promela"])
    root = p_c01.gen_chart(rp, dm, {})
    engine = "default"    # the reference model is compared with the default (large) engine, as in mode A; C03 covers fast against large
    ops = [{"op": "create", "i": 0, "chart": "main", "engine": engine,
            "dm_faults": {"seed": rp.getrandbits(30), "p": rp.choice([0.03, 0.08, 0.2])}},
           {"op": "validate", "i": 0}] + p_c01.history_ops(rp, many=(True if (root.meta or {}).get("par_bias") and rp.random() < 0.8 else None))
    return {"id": k, "seed": seed, "entropy_seed": seed & 0x7fffffff, "mode": "T", "flavour": "san" if rp.random() < 0.33 else "plain", "planted": "transient-datamodel-failure",
            "sched": {"seed": seed & 0x7fffffff, "policy": "nonpreempt", "max_decisions": 400000}, "step_budget": 200,
            "charts": {"main": root.xml()}, "actors": {"main": ops}}


def transient_faults(root, res):
    """-> fail_occ for the reference model: which execution of which element got a fault (and for <if>, which head)"""
    seen = {}
    occ = {}
    idx = root.index_by_xpath()
    n = 0
    for r in res.lines:
        if r[SESS] != "i0":
            continue
        if r[KIND] == "bxc":
            seen[r[5]] = seen.get(r[5], 0) + 1
        elif r[KIND] == "flt":
            n += 1
            elem, expr = r[6], r[7]
            head = None
            els = idx.get(elem, [])
            if els and els[0].tag == "if":
                heads = [els[0]] + [c for c in els[0].children if c.tag == "elseif"]
                head = 0
                for hi, h in enumerate(heads):
                    if h.attrs.get("cond", "")[:80] == expr:
                        head = hi
                        break
            occ.setdefault(elem, {})[seen.get(elem, 0)] = head
    return occ, n


def gen_plan(seed, k):
    rp = usimlib.substream(seed, "plan")
    x0 = rp.random()
    if x0 < 0.06:
        return finalize_plan(seed, k, rp)
    if x0 < 0.21:
        return transient_plan(seed, k, rp)
    mode = "B" if x0 < 0.38 else "A"
    flavour = "san" if rp.random() < 0.33 else "plain"
    dm = rp.choice(["lua", "lua", "promela", "promela", "null"])
    feats = {}
    root = p_c01.gen_chart(rp, dm, feats)
    planted = None
    if mode == "A":
        planted = gen.plant_failure(root, rp, dm, allow_src=True)
        xml = root.xml()
    else:
        xml = mutate_xml(root.xml(), rp)
    if "7 / 0" in xml or "7 % 0" in xml:
        # integer division by zero is a hardware trap in the shipped build; the UBSan build compiles the division
        # differently, so this fault kind is only meaningful in the plain flavour
        flavour = "plain"
    engine = rp.choice(["default", "large", "fast"]) if mode == "B" else "default"
    ops = [{"op": "create", "i": 0, "chart": "main", "engine": engine}, {"op": "validate", "i": 0}] + p_c01.history_ops(rp)
    return {"id": k, "seed": seed, "entropy_seed": seed & 0x7fffffff, "mode": mode, "flavour": flavour, "planted": planted,
            "sched": {"seed": seed & 0x7fffffff, "policy": "nonpreempt", "max_decisions": 400000}, "step_budget": 200,
            "charts": {"main": xml}, "actors": {"main": ops}}


def oracle(plan, res):
    fl = plan.get("flavour", "plain")
    v = hard_failures(res, PROP, flavour=fl, kinds=("crash",))
    if res.verdict is not None and res.verdict[0] not in ("deadlock", "stuck", "idle-forever"):
        v += hard_failures(res, PROP, flavour=fl, kinds=("verdict",))
    vres = "none"
    for r in res.lines:
        if r[KIND] == "op>" and r[6] == "validate":
            vres = r[7] or "OK"
    v = [(rule, detail + "\nvalidate=%s" % vres) if rule.startswith("C07.crash") else (rule, detail) for (rule, detail) in v]
    info = {"nontrivial": False, "fatal": False, "executed_fail": 0, "stepped": False, "known_c01": None}
    if res.end is None:
        return v, info
    stepped = any(r[KIND] == "st" for r in res.lines)
    info["stepped"] = stepped
    if plan.get("mode") == "B":
        info["nontrivial"] = stepped
        return v, info
    if res.failed_hard():
        return v, info
    if plan.get("mode") == "F":
        finalize_oracle(plan, res, v, info)
        return v, info
    for r in res.lines:
        if r[KIND] == "op>" and r[6] == "validate" and r[7] == "FATAL":
            info["fatal"] = True
            return v, info
        if r[KIND] == "exc" and r[5] == "step":
            v.append(("C07.keeps-running", "an exception left step(): %s %s %s" % (r[6], r[7], r[8])))
    try:
        root = gen.from_xml(plan["charts"]["main"])
    except Exception as e:
        return v, info
    fm = gen.fail_map(root)
    fo = None
    if plan.get("mode") == "T":
        fo, nflt = transient_faults(root, res)
        info["faults_injected"] = nflt
    rv, rinfo = refine.refine(root, plan, res, fail_elems=fm, fail_occ=fo)
    for (rule, detail) in rv:
        if rule.startswith("C01."):
            # a divergence that one of C01's known deviations explains is C01's finding, not an error-handling fault
            known = p_c01.classify(rule, detail, plan, fail_elems=fm, fail_occ_fn=(transient_faults if plan.get("mode") == "T" else None))
            if known:
                info["known_c01"] = known
                continue
            ph = rule.split(".", 1)[1]
            name = {"raise": "error-event", "content": "skip-rest-or-other-blocks", "queue": "error-event-order"}.get(ph, "refine-" + ph)
            v.append(("C07." + name, detail))
        else:
            v.append((rule, detail))
    executed = set(r[5] for r in res.lines if r[KIND] == "bxc")
    info["executed_fail"] = len([x for x in fm if x in executed]) + (1 if any(x.startswith("//data") for x in fm) else 0)
    if plan.get("mode") == "T":
        info["executed_fail"] = info.get("faults_injected", 0)
    info["nontrivial"] = info["executed_fail"] > 0
    return v, info


def evaluate(plan, usim):
    u = usim
    if plan.get("flavour", "plain") != usim.flavour:
        u = usimlib.Usim(plan["flavour"])
    try:
        return oracle(plan, u.run(plan))[0]
    finally:
        if u is not usim:
            u.kill()


def run_one(ctx, usim, seed, k, acc):
    plan = gen_plan(seed, k)
    u = ctx.usim_for(plan["flavour"])
    res = u.run(plan)
    v, info = oracle(plan, res)
    end = res.end or {}
    acc.sim_ms += end.get("sim_ms", 0)
    acc.decisions += end.get("decisions", 0)
    acc.count("pol.nonpreempt")
    acc.count("mode." + plan["mode"])
    acc.count("flavour." + plan["flavour"])
    if plan["mode"] == "T":
        acc.count("fault.transient_datamodel_failures_injected", info.get("faults_injected", 0))
    if plan["mode"] in ("A", "F", "T"):
        acc.count("fault.planted_failing_" + str(plan["planted"]))
        acc.count("probe.planted_element_executed", info["executed_fail"])
    else:
        acc.count("fault.xml_mutation")
        acc.count("probe.mutant_stepped", 1 if info["stepped"] else 0)
    acc.count("charts_rejected_by_validate", 1 if info["fatal"] else 0)
    acc.count("runs_ended_at_known_C01_divergence", 1 if info.get("known_c01") else 0)
    if info["nontrivial"]:
        acc.hashes.add(usimlib.hashlib.sha256(plan["charts"]["main"].encode()).hexdigest()[:16])
    for (rule, detail) in v:
        acc.violations.append({"rule": rule, "detail": detail, "plan": plan, "k": k})
        break
    if len(acc.samples) < 1 and info["nontrivial"] and k < 64:
        acc.samples.append({"run": k, "seed": seed, "mode": plan["mode"], "flavour": plan["flavour"], "planted": plan["planted"],
                            "chart": plan["charts"]["main"], "ops": plan["actors"]["main"]})


def plan_ok(plan):
    """the reduction of a finalize scenario keeps the scenario: the oracle reads the number of child events and the final ping from the plan"""
    if plan.get("mode") != "F":
        return True
    xml = plan["charts"]["main"]
    ops = plan["actors"]["main"]
    return ("<finalize>" in xml and xml.count('target="#_parent"') == plan["n_child_events"] and 'label="F1"' in xml and 'label="F2"' in xml and
            'event="ping"' in xml and 'event="*"' in xml and any(o.get("op") == "recv" for o in ops) and
            any(o.get("op") == "sleep" and o.get("ms") == 30 for o in ops) and
            ops and ops[-1].get("op") == "run" and sum(1 for o in ops if o.get("op") == "run") >= 3)


LOAD_FRAMES = ("::init(", "Interpreter::validate", "InterpreterIssue::forInterpreter", "setupDOM", "getReachableStates", "MicroStep::init")


def classify(rule, detail, plan):
    if rule.startswith("C07.crash[SIGFPE@"):
        return "C07-promela-division-by-zero"
    if rule.startswith("C07.crash[") and plan.get("mode") == "B":
        # damaged document dies while it is validated or initialised (before any step ran)
        if any(f in detail for f in LOAD_FRAMES) and "MicroStep::step" not in detail.replace("InterpreterImpl::step", ""):
            return "C07-damaged-document-crashes-validate-or-init"
        # validate() itself said the document cannot be processed, the engine was stepped nevertheless
        if detail.rstrip().endswith("validate=FATAL"):
            return "C07-damaged-document-crashes-validate-or-init"
    return None
