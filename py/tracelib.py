import re

"""Helpers over the recorded history.  A record is
   [seq, t_us, task, session_or_queue, kind, fields...]"""

SEQ, T, TASK, SESS, KIND = 0, 1, 2, 3, 4


def _short_fn(frame):
    fn = frame.split(" @ ")[0]
    fn = re.sub(r"\(.*$", "", fn)
    fn = fn.replace("uscxml::", "")
    return fn


def crash_signature(res, flavour="plain"):
    """what + first /repo frame of the crashing thread (symbolised)."""
    import usimlib
    what, sig, bt = res.crash
    frames = usimlib.symbolise(bt, flavour)
    if not frames and res.stderr_tail:
        # sanitizer report: "#3 0x... in uscxml::Foo::bar(...) /repo/src/...:123"
        san_kind = ""
        for line in res.stderr_tail.splitlines():
            m = re.search(r"runtime error: (.*)$", line)
            if m and not san_kind:
                # values and addresses in the message vary from run to run (uninitialised reads): not part of the failure class
                san_kind = "UBSan " + re.sub(r"0x[0-9a-f]+|-?\d+", "N", m.group(1))[:60]
            m = re.search(r"ERROR: AddressSanitizer: (\S+)", line)
            if m and not san_kind:
                san_kind = "ASan " + m.group(1)
            m = re.match(r"\s*#\d+ 0x[0-9a-f]+ in (.+?) (/\S+?):(\d+)", line)
            if m:
                frames.append("%s @ %s:%s" % (m.group(1), m.group(2), m.group(3)))
        if san_kind:
            what = san_kind
    top = ""
    for f in frames:
        if " @ /repo/" in f and "~ErrorEvent" not in f and "Event.h" not in f:
            top = _short_fn(f)
            break
    w = what
    if w in ("exit", "sanitizer") and sig == 77:
        w = "sanitizer"
    if w == "signal":
        w = {11: "SIGSEGV", 8: "SIGFPE", 6: "SIGABRT", 7: "SIGBUS", 4: "SIGILL", 14: "SIGALRM"}.get(sig, "signal%s" % sig)
    return "%s@%s" % (w, top or "?"), frames


def wait_signature(detail):
    """sorted set of things tasks are blocked on, from the kernel's wait-for graph."""
    ws = sorted(set(re.findall(r"blocked on (\w+)", detail)))
    return "+".join(ws)


def hard_failures(res, prop, flavour="plain", kinds=("crash", "verdict")):
    """Kernel verdicts / crashes turned into rule ids (used by every property).
    The bracketed part is the failure class; minimisation keeps it fixed."""
    out = []
    if res.crash is not None and "crash" in kinds:
        sigt, frames = crash_signature(res, flavour)
        out.append(("%s.crash[%s]" % (prop, sigt), "process died: %s\n%s" % (sigt, "\n".join("  " + f for f in frames[:14]))))
    if res.verdict is not None and "verdict" in kinds:
        rule, detail = res.verdict
        if rule in ("deadlock", "stuck", "idle-forever"):
            rule = "%s[%s]" % (rule, wait_signature(detail))
        out.append(("%s.%s" % (prop, rule), detail))
    if res.harness_error:
        out.append(("HARNESS", res.harness_error))
    return out


def by_kind(lines, *kinds):
    ks = set(kinds)
    return [r for r in lines if r[KIND] in ks]


class Bindings(object):
    """session tag -> queue ids, from 'bind' records."""

    def __init__(self, lines):
        self.ext = {}
        self.int = {}
        self.dly = {}
        self.invokeid = {}
        self.qsess = {}
        for r in lines:
            if r[KIND] == "bind":
                s = r[SESS]
                self.invokeid[s] = r[5]
                self.ext[s], self.int[s], self.dly[s] = r[7], r[8], r[9]
                for q in (r[7], r[8], r[9]):
                    if q:
                        self.qsess[q] = s


def tail(lines, n=40):
    import json
    return [json.dumps(r)[:240] for r in lines[-n:]]
