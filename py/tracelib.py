import re

"""Helpers over the recorded history.  A record is
   [seq, t_us, task, session_or_queue, kind, fields...]"""

SEQ, T, TASK, SESS, KIND = 0, 1, 2, 3, 4


def _short_fn(frame):
    fn = frame.split(" @ ")[0]
    fn = re.sub(r"\(.*$", "", fn)
    fn = fn.replace("uscxml::", "")
    return fn


def crash_signature(res, flavour="plain"):
    """what + first /repo frame of the crashing thread (symbolised)."""
    import usimlib
    what, sig, bt = res.crash
    frames = usimlib.symbolise(bt, flavour)
    top = ""
    for f in frames:
        if " @ /repo/" in f and "~ErrorEvent" not in f and "Event.h" not in f:
            top = _short_fn(f)
            break
    w = what
    if w == "signal":
        w = {11: "SIGSEGV", 8: "SIGFPE", 6: "SIGABRT", 7: "SIGBUS", 4: "SIGILL", 14: "SIGALRM"}.get(sig, "signal%s" % sig)
    return "%s@%s" % (w, top or "?"), frames


def wait_signature(detail):
    """sorted set of things tasks are blocked on, from the kernel's wait-for graph."""
    ws = sorted(set(re.findall(r"blocked on (\w+)", detail)))
    return "+".join(ws)


def hard_failures(res, prop, flavour="plain"):
    """Kernel verdicts / crashes turned into rule ids (used by every property).
    The bracketed part is the failure class; minimisation keeps it fixed."""
    out = []
    if res.crash is not None:
        sigt, frames = crash_signature(res, flavour)
        out.append(("%s.crash[%s]" % (prop, sigt), "process died: %s\n%s" % (sigt, "\n".join("  " + f for f in frames[:14]))))
    if res.verdict is not None:
        rule, detail = res.verdict
        if rule in ("deadlock", "stuck", "idle-forever"):
            rule = "%s[%s]" % (rule, wait_signature(detail))
        out.append(("%s.%s" % (prop, rule), detail))
    if res.harness_error:
        out.append(("HARNESS", res.harness_error))
    return out


def by_kind(lines, *kinds):
    ks = set(kinds)
    return [r for r in lines if r[KIND] in ks]


class Bindings(object):
    """session tag -> queue ids, from 'bind' records."""

    def __init__(self, lines):
        self.ext = {}
        self.int = {}
        self.dly = {}
        self.invokeid = {}
        self.qsess = {}
        for r in lines:
            if r[KIND] == "bind":
                s = r[SESS]
                self.invokeid[s] = r[5]
                self.ext[s], self.int[s], self.dly[s] = r[7], r[8], r[9]
                for q in (r[7], r[8], r[9]):
                    if q:
                        self.qsess[q] = s


def tail(lines, n=40):
    import json
    return [json.dumps(r)[:240] for r in lines[-n:]]
