"""C02 — The active configuration is legal after every microstep.

Generated charts biased towards history, parallel, targetless and multi-target
transitions, both engines, deterministic histories and controller threads
(receive / cancel at arbitrary decision points); Recommendation 3.11 is tested
on getConfiguration() after every step(), the root must be entered once, and
remembered history must name states that were simultaneously active.
See DESIGN.md 6/C02.
"""
import json

import gen
import oracles
import workload
import usimlib
from tracelib import *

PROP = "C02"
LEVEL = "exploration"
FLAVOUR = "plain"
TIERS = {"quick": (40000, 170), "thorough": (2500000, 3300)}
RULE_TEXT = ("one run = one generated chart that validate() accepts (<= 10 states, biased to history/parallel/targetless/multi-target) x one event history, "
             "engine large or fast, deterministic-history mode or stepper+controller under the seeded scheduler; the legality predicate runs after every step(); "
             "non-trivial = at least 4 configurations checked and the chart has a parallel or history state; distinct = distinct (chart, ops, engine) content hashes")
ASSUMPTIONS = [
    "quantifier restricted to documents that Interpreter::validate() passes without fatal issue (charts with a fatal issue are counted and skipped)",
    "the generated-C machine of the property's quantifier is covered under C04, not here",
]


class Context(object):
    def __init__(self, prop, tier, opts):
        self.opts = opts


def gen_plan(seed, k):
    return workload.chart_and_history(seed, k, features={"par_p": 0.5, "hist_p": 0.2})


def oracle(plan, res):
    # kernel verdicts (deadlock ...) and crashes belong to C09/C10/C07; here they only end the observation
    v = hard_failures(res, PROP, kinds=())
    info = {"nontrivial": False, "fatal": False, "checked": 0, "ended_by_other": res.failed_hard()}
    if res.end is None and not res.lines:
        return v, info
    for r in res.lines:
        if r[KIND] == "op>" and r[6] == "validate" and r[7] == "FATAL":
            info["fatal"] = True
            return [x for x in v if "crash" in x[0]], info
    lv, linfo = oracles.c02_violations(plan["charts"]["main"], res.lines)
    v += lv
    info["checked"] = linfo["checked"]
    xml = plan["charts"]["main"]
    info["nontrivial"] = linfo["checked"] >= 4 and ("<parallel" in xml or "<history" in xml)
    return v, info


def evaluate(plan, usim):
    return oracle(plan, usim.run(plan))[0]


def run_one(ctx, usim, seed, k, acc):
    plan = gen_plan(seed, k)
    res = usim.run(plan)
    v, info = oracle(plan, res)
    end = res.end or {}
    workload.common_counts(acc, plan, end)
    acc.count("charts_rejected_by_validate", 1 if info["fatal"] else 0)
    acc.count("probe.configurations_checked", info["checked"])
    acc.count("runs_ended_by_verdict_or_crash_of_another_property", 1 if info.get("ended_by_other") else 0)
    if info["nontrivial"]:
        acc.hashes.add(usimlib.hashlib.sha256((plan["charts"]["main"] + json.dumps(plan["actors"]) + plan["engine"]).encode()).hexdigest()[:16])
    if k % 100 == 7 and not res.failed_hard():
        res2 = usim.run(plan)
        acc.recheck_n += 1
        if res2.trace_hash != res.trace_hash:
            acc.recheck_mismatch += 1
    for (rule, detail) in v:
        acc.violations.append({"rule": rule, "detail": detail, "plan": plan, "k": k})
        break
    if len(acc.samples) < 1 and info["nontrivial"] and k < 64:
        acc.samples.append({"run": k, "seed": seed, "engine": plan["engine"], "mode": plan["mode"], "chart": plan["charts"]["main"],
                            "actors": plan["actors"], "configurations_checked": info["checked"]})


def classify(rule, detail, plan):
    import re
    import p_c01
    m = re.search(r"taken=(\[.*\])$", detail)
    if m and rule == "C02.legal-configuration":
        try:
            taken = json.loads(m.group(1))
        except ValueError:
            taken = []
        if taken and p_c01.history_of_active_parent(plan["charts"]["main"], taken):
            return "C02-transition-into-history-of-active-parent"
    return None
