"""C06 — The Promela model preserves the chart's behaviour.

For generated promela-datamodel charts in the back-end's fragment (single
machine; raise / send / assign / if / log / cancel content; history; parallel)
ChartToPromela::transform is called in-process.  The emitted model is executed
by spin in random-simulation mode (spin -T -n<seed>: itself a seeded scheduler
over whatever nondeterminism the model has); from its execution trace the order
in which external events were dequeued is extracted, and the interpreter is run
on the same chart inside the simulator with its delayed events held back and
released in exactly that order ("for the same order of external events").
Compared record by record: events dequeued, states exited and entered, <log>
output with values, raised and sent events, configurations, termination.
spin's verification mode is not used.  See DESIGN.md 6/C06.
"""
import json
import os
import re
import shutil
import subprocess

import gen
import p_c01
import usimlib
from tracelib import *

PROP = "C06"
LEVEL = "exploration"
FLAVOUR = "plain"
TIERS = {"quick": (8000, 170), "thorough": (160000, 3300)}
RULE_TEXT = ("one run = one generated promela-datamodel chart (<= 10 states, parallel/history/final, internal/targetless/multi-target/eventless transitions, "
             "raise/send/assign/if/log/cancel content, integer conditions) executed by spin -T -n<seed> (emitted model) and by the interpreter in the simulator with "
             "delayed events released in the model's order; compared: events dequeued, exits, entries, log values, configurations, termination (raised and sent events through the order in which they are dequeued); "
             "non-trivial = at least 2 events and 3 configuration changes compared; distinct = distinct (chart, spin seed) hashes")
ASSUMPTIONS = [
    "differential execution: spin's random simulation is the seeded scheduler of the model, the simulator owns the interpreter's clock and the release order of delayed events",
    "single machine (no invoke), promela datamodel, numeric delays, <cancel> only of send ids that occur in the document (the transpiler rejects others)",
    "executions in which the model blocks on one of its bounded queues (spin: 'stmnt in d_step blocks') or exceeds the step limit are outside the fragment and skipped",
    "runs in which spin 6.5 prints its spurious \"is type '_unnamed_'\" message (freed memory as type name) are skipped",
    "transition identities are not compared (the model numbers transitions), their effects are",
]
SCRATCH = os.path.join(usimlib.BUILD, "scratch")
SPIN_STEPS = 30000


COMPONENTS_REAL_EXTRA = ['ChartToPromela::transform (in-process) and the model it emits, executed by spin 6.5 in random-simulation mode']
COMPONENTS_SIM_EXTRA = ["delayed-event delivery of the interpreter: HoldDelayQueue (DelayedEventQueueImpl that holds events and releases them in the model's order)"]


class Context(object):
    def __init__(self, prop, tier, opts):
        self.opts = opts


def fit(root):
    """into the transpiler's fragment: numeric delays; cancel only of ids some <send> carries"""
    ids = set(e.attrs.get("id") for e in root.walk() if e.tag == "send" and e.attrs.get("id"))
    for e in list(root.walk()):
        if e.tag == "cancel" and e.attrs.get("sendid") not in ids:
            e.parent.children.remove(e)
        if e.tag == "send" and e.attrs.get("delay", "").endswith("ms"):
            e.attrs["delay"] = e.attrs["delay"][:-2]


def environment(root, rp):
    """The model is a closed system: what the environment would send is scripted as delayed sends with distinct delays in the
    entry handler of an extra initial state that is entered once (they are external events like any other, and the model
    decides their order)."""
    first = [c for c in root.children if c.tag in ("state", "parallel", "final")]
    if not first:
        return
    target = root.attrs.get("initial") or first[0].attrs["id"]
    env = gen.El("state", {"id": "senv"})
    blk = env.add(gen.El("onentry"))
    small = bool((root.meta or {}).get("par_bias"))
    delays = rp.sample(range(3, 60), rp.randint(1, 4) if not small else rp.randint(5, 10))
    letters = ["a", "b", "a", "b", "a.x", "c"]
    if (root.meta or {}).get("completable"):
        letters = ["a", "b", "c", "c"]      # the letter that finishes regions comes often
    for d in delays:
        blk.add(gen.El("send", {"event": rp.choice(letters if small else gen.EXT_EVENTS + ["a", "b"]), "delay": str(d)}, delay=d))
    env.add(gen.El("transition", {"target": target}))
    idx = min(i for i, c in enumerate(root.children) if c.tag in ("state", "parallel", "final"))
    root.children.insert(idx, env)
    env.parent = root
    root.attrs["initial"] = "senv"


def gen_plan(seed, k):
    rp = usimlib.substream(seed, "plan")
    root = p_c01.gen_chart(rp, "promela", {"late": False, "delayed_internal": False, "few_raises": True, "hist_p": 0.25, "par_p": 0.45, "completable_p": 0.7, "quiet": rp.random() < 0.6})
    fit(root)
    environment(root, rp)
    return {"id": k, "seed": seed, "entropy_seed": seed & 0x7fffffff, "spin_seed": 1 + (seed % 9973),
            "sched": {"seed": seed & 0x7fffffff, "policy": "nonpreempt", "max_decisions": 400000},
            "charts": {"main": root.xml()},
            "actors": {"main": [{"op": "create", "i": 0, "chart": "main", "engine": "default", "hold_delayed": True}, {"op": "validate", "i": 0},
                                {"op": "transform", "i": 0, "kind": "pml", "full": True}]}}


# ---------------------------------------------------------------------------------------
# the model's side
# ---------------------------------------------------------------------------------------

def run_spin(text, spin_seed, tag):
    d = os.path.join(SCRATCH, "c06-%d-%s" % (os.getpid(), tag))
    shutil.rmtree(d, ignore_errors=True)
    os.makedirs(d)
    try:
        body = "\n".join(ln for ln in text.splitlines() if not ln.startswith("ltl "))
        with open(os.path.join(d, "m.pml"), "w") as f:
            f.write(body)
        try:
            p = subprocess.run(["spin", "-T", "-n%d" % spin_seed, "-u%d" % SPIN_STEPS, "m.pml"], cwd=d, capture_output=True, timeout=120)
        except subprocess.TimeoutExpired:
            return None, "timeout"
        return p.stdout.decode("utf-8", "replace"), None
    finally:
        shutil.rmtree(d, ignore_errors=True)


LOG_RE = re.compile(r"(L\d+): (-?\d+?)(?=1: Sending|[A-Z]|$)")


def model_stream(text, out):
    """-> (stream, external order, problem)"""
    states = {}
    lits = {}
    for m in re.finditer(r"^#define (\S+) (\d+) /\* (.*?) \*/$", text, re.M):
        name, num, cm = m.group(1), int(m.group(2)), m.group(3)
        if cm.startswith("index for state "):
            states[num] = cm[len("index for state "):]
        elif cm.startswith("index for invoker"):
            continue
        else:
            lits[num] = cm
    stream = []
    ext = []
    last_cfg = None
    src = None
    problem = None
    lines = out.splitlines()
    for ln in lines:
        sp = ln.find("spin: ")
        if sp >= 0 and "Error" in ln[sp:]:
            # (may be glued to <log> output, which has no newline)
            problem = ln[sp:]
            break
        if ln.startswith("timeout") or ln.startswith("#processes") or ln.startswith("-------------"):
            break
        # <log> output has no newline: it may be glued to the front of the next message
        pos = 0
        while True:
            m = LOG_RE.match(ln, pos)
            if not m:
                break
            stream.append(("l", m.group(1), int(m.group(2))))
            pos = m.end()
        ln = ln[pos:]
        if not ln:
            continue
        if ln.startswith("Deqeued an internal event"):
            src = "int"
        elif ln.startswith("Deqeued an external event"):
            src = "ext"
        elif ln.startswith("Establishing optimal transition set for event "):
            n = int(ln.rsplit(" ", 1)[1])
            if n != 0:
                nm = lits.get(n, "?%d" % n)
                stream.append(("E", nm))
                if src == "ext":
                    ext.append(nm)
            src = None
        elif ln.startswith("Configuration: "):
            bits = ln[len("Configuration: "):].strip()
            cfg = tuple(states[i] for i, b in enumerate(bits) if b == "1" and i in states)
            if cfg != last_cfg and any(b == "1" for b in bits):
                stream.append(("cfg",) + cfg)
            last_cfg = cfg
        elif ln.startswith("Exiting state "):
            n = int(ln.rsplit(" ", 1)[1])
            if n in states:
                stream.append(("x", states[n]))
        elif ln.startswith("Entering state "):
            n = int(ln.rsplit(" ", 1)[1])
            if n in states:
                stream.append(("e", states[n]))
        elif ": Sending " in ln:
            m = re.match(r"\d+: Sending \S+ \((\d+)\) to (\S+)", ln)
            if m:
                nm = lits.get(int(m.group(1)), "?")
                stream.append(("r" if m.group(2).endswith("iQ") else "s", nm))
        elif ln.startswith("Machine finished"):
            stream.append(("done",))
    hit_limit = bool(lines) and re.match(r"\s*%d:" % SPIN_STEPS, lines[-2] if len(lines) > 1 else "") is not None
    return stream, ext, problem, hit_limit


# ---------------------------------------------------------------------------------------
# the interpreter's side
# ---------------------------------------------------------------------------------------

def interp_stream(res):
    lines = res.lines
    b = Bindings(lines)
    intq, extq, dlyq = b.int.get("i0"), b.ext.get("i0"), b.dly.get("i0")
    out = []
    last_cfg = None
    own_task = None
    delayed = set()
    finished = False
    for r in lines:
        kd, s = r[KIND], r[SESS]
        if s == "i0":
            if own_task is None and kd in ("bms", "st"):
                own_task = r[TASK]
            if kd == "ev":
                out.append(("E", r[5]["name"]))
            elif kd == "log" and r[5] == 4:
                lab, _, val = r[6].partition(":")
                try:
                    v = int(float(val.strip()))
                except ValueError:
                    v = val.strip()
                out.append(("l", lab, v))
            elif kd == "bxs":
                out.append(("x", r[5]))
            elif kd == "bes" and r[5]:
                out.append(("e", r[5]))
            elif kd == "st":
                if r[5] in ("INITIALIZED", "EXC"):
                    continue
                cfg = tuple(x for x in r[6].split() if not x.startswith("#/"))
                if r[5] == "FINISHED":
                    if not finished:
                        out.append(("done",))
                    finished = True
                    continue
                if cfg != last_cfg and cfg:
                    out.append(("cfg",) + cfg)
                last_cfg = cfg
        elif s == intq and kd == "enq<":
            out.append(("r", r[6]["name"]))
        elif s == dlyq and kd == "dly<":
            delayed.add(r[7])
            out.append(("s", r[5]["name"]))
        elif s == extq and kd == "enq<":
            if r[7] not in delayed and r[6].get("origin") and r[TASK] == own_task:
                out.append(("s", r[6]["name"]))
    return out


def normalise(stream):
    """the configuration is compared where both sides print it: the model prints it before each selection, the interpreter after
    each step; a 'cfg' record right before 'done' and records after 'done' are dropped"""
    out = []
    for t in stream:
        if t[0] in ("r", "s"):
            # the model only prints 'Sending' when its event type is a structure (delays or send ids in the document); what was
            # raised or sent is compared through the events dequeued
            continue
        if t == ("done",):
            while out and out[-1][0] == "cfg":
                out.pop()
            out.append(t)
            break
        out.append(t)
    while out and out[-1][0] == "cfg":
        out.pop()
    return out


def check(plan, usim, tag):
    v = []
    info = {"nontrivial": False, "skipped": None, "events": 0, "cfgs": 0}
    res = usim.run(plan)
    if res.end:
        info["sim_ms"] = res.end.get("sim_ms", 0)
        info["decisions"] = res.end.get("decisions", 0)
    if res.failed_hard():
        info["skipped"] = "interpreter run ended by a verdict/crash of another property"
        return v, info
    for r in res.lines:
        if r[KIND] == "op>" and r[6] == "validate" and r[7] == "FATAL":
            info["skipped"] = "validate FATAL"
            return v, info
    text = None
    for r in res.lines:
        if r[KIND] == "xform" and r[5] == "pml":
            text = r[8]
    if text is None:
        info["skipped"] = "transformer threw"
        return v, info
    out, err = run_spin(text, plan.get("spin_seed", 1), tag)
    if err == "timeout":
        info["skipped"] = "spin did not finish within 120 s"
        return v, info
    mstream, ext_order, problem, hit_limit = model_stream(text, out)
    info["hist_restores"] = out.count("Established history in target set")
    info["hist_defaults"] = out.count("Fresh history in target set")
    if problem:
        if "is type '_unnamed_'" in problem or "incorrect type of" in problem:
            # spin 6.5's simulator sometimes reports a structure-typed message as mistyped, printing freed memory as the
            # expected type name; the model text is well typed (typedef _event_t, chan of {_event_t}): a tool artefact
            info["skipped"] = "spin reported its spurious structure-type error"
            return v, info
        if "stmnt in d_step blocks" in problem:
            info["skipped"] = "model blocked on a bounded queue"
            return v, info
        v.append(("C06.model-rejected", "spin does not accept the emitted model: %s" % problem))
        return v, info
    if hit_limit:
        info["skipped"] = "spin step limit (endless loop in the chart)"
        return v, info
    q = json.loads(json.dumps(plan))
    q["actors"]["main"] = [o for o in q["actors"]["main"] if o.get("op") != "transform"] + [
        {"op": "follow", "i": 0, "order": ext_order, "max": 1500}]
    res2 = usim.run(q)
    if res2.failed_hard():
        info["skipped"] = "interpreter run ended by a verdict/crash of another property"
        return v, info
    fres = [r[7] for r in res2.lines if r[KIND] == "op>" and r[6] == "follow"]
    if fres and fres[0] == "CAP":
        info["skipped"] = "interpreter step cap"
        return v, info
    a = normalise(interp_stream(res2))
    b = normalise(mstream)
    if fres and fres[0] == "MISS":
        miss = [r for r in res2.lines if r[KIND] == "follow-miss"]
        # the model dequeued an external event the interpreter does not have pending: report at the first differing record
    m = min(len(a), len(b))
    d = 0
    while d < m and a[d] == b[d]:
        d += 1
    if d < len(a) or d < len(b):
        v.append(("C06.trace-differs", "record %d differs: interpreter=%s model=%s; before: %s; external order of the model: %s; follow=%s" % (
            d, a[d] if d < len(a) else None, b[d] if d < len(b) else None, a[max(0, d - 4):d], ext_order, fres[:1])))
    info["events"] = len([t for t in a if t[0] == "E"])
    info["cfgs"] = len([t for t in a if t[0] == "cfg"])
    info["nontrivial"] = info["events"] >= 2 and info["cfgs"] >= 3
    return v, info


def evaluate(plan, usim):
    return check(plan, usim, "eval%d" % plan.get("id", 0))[0]


def run_one(ctx, usim, seed, k, acc):
    plan = gen_plan(seed, k)
    v, info = check(plan, usim, "w%d" % k)
    acc.count("pol.nonpreempt")
    acc.count("fault.none_fault_free_histories")
    acc.sim_ms += info.get("sim_ms", 0)
    acc.decisions += info.get("decisions", 0)
    if info["skipped"]:
        acc.count("skipped: " + info["skipped"])
    acc.count("probe.events_compared", info["events"])
    acc.count("probe.configurations_compared", info["cfgs"])
    acc.count("probe.history_restored_from_memory", info.get("hist_restores", 0) if not info["skipped"] else 0)
    acc.count("probe.history_default_taken", info.get("hist_defaults", 0) if not info["skipped"] else 0)
    acc.count("probe.runs_with_two_or_more_history_restores", 1 if (info.get("hist_restores", 0) >= 2 and not info["skipped"]) else 0)
    if info["nontrivial"]:
        acc.hashes.add(usimlib.hashlib.sha256((plan["charts"]["main"] + str(plan["spin_seed"])).encode()).hexdigest()[:16])
    for (rule, detail) in v:
        acc.violations.append({"rule": rule, "detail": detail, "plan": plan, "k": k})
        break
    if len(acc.samples) < 1 and info["nontrivial"] and k < 64:
        acc.samples.append({"run": k, "seed": seed, "chart": plan["charts"]["main"], "spin_seed": plan["spin_seed"], "events_compared": info["events"]})


def plan_ok(plan):
    """reduction stays inside the generator's space: every variable the chart mentions is declared"""
    xml = plan["charts"]["main"]
    declared = set(re.findall(r'<data id="(v\d+)"', xml))
    used = set(re.findall(r"\bv\d+\b", re.sub(r'<data id="v\d+"', "", xml)))
    if not used <= declared:
        return False
    ids = set(re.findall(r'<(?:state|parallel|final|history) id="(\w+)"', xml))
    if not set(re.findall(r"config\[(\w+)\]", xml)) <= ids:
        return False
    if re.search(r"<parallel [^>]*/>", xml):
        return False
    return True


def with_engine(plan, engine):
    q = json.loads(json.dumps(plan))
    for o in q["actors"]["main"]:
        if o.get("op") == "create":
            o["engine"] = engine
    return q


C03_TO_C06 = {
    "C03-fast-engine-suppresses-ancestor-transition-next-to-targetless-descendant": "C06-model-suppresses-ancestor-transition-next-to-targetless-descendant",
    "C03-transition-into-history-of-active-parent": "C06-transition-into-history-of-active-parent",
}


def classify(rule, detail, plan):
    """The emitted step proctype is the fast engine's algorithm over bit arrays (as is the generated C).  Where the model
    differs from the default (large) interpreter but agrees with the fast engine, and the fast/large difference on this
    chart under the same release order is one of the recorded C03 findings, the divergence is that finding seen through
    the transpiler.  Where the interpreter itself leaves Appendix D in a way recorded under C01, the reference is at fault."""
    if rule != "C06.trace-differs":
        return None
    import p_c03
    import refine
    u = usimlib.Usim(FLAVOUR)
    try:
        m = re.search(r"external order of the model: (\[.*?\]); follow=", detail)
        order = json.loads(m.group(1).replace("'", '"')) if m else []
        follow = {"op": "follow", "i": 0, "order": order, "max": 1500}
        if not check(with_engine(plan, "fast"), u, "cls%d" % os.getpid())[0]:
            p3 = json.loads(json.dumps(plan))
            p3["actors"]["main"] = [o for o in p3["actors"]["main"] if o.get("op") != "transform"] + [follow]
            p3["source"] = "generated"
            for (r3, d3) in p_c03.evaluate(p3, u):
                cls = p_c03.classify(r3, d3, p3)
                if cls in C03_TO_C06:
                    return C03_TO_C06[cls]
        p1 = json.loads(json.dumps(plan))
        p1["actors"]["main"] = [o for o in p1["actors"]["main"] if o.get("op") != "transform"] + [follow]
        res = u.run(p1)
        if res.failed_hard():
            return None
        root = gen.from_xml(p1["charts"]["main"])
        for (r1, d1) in refine.refine(root, p1, res)[0]:
            if r1.startswith("C01.") and p_c01.classify(r1, d1, p1):
                return "C06-reference-interpreter-leaves-appendix-d-in-a-recorded-way"
            break
    except Exception:
        return None
    finally:
        u.kill()
    return None
