"""Determinism self-test (DESIGN.md 3.5): every seed is executed twice, in different usim processes
with different process histories (forward and reverse order, other worker split), and the hashes of
the full event log (trace) and of the scheduler decision sequence must be equal."""
import importlib
import sys
import time
import multiprocessing as mp

import usimlib

MODS = ["p_c08", "p_c09", "p_c10", "p_c11", "p_c01", "p_c02", "p_c13"]


def plans_of(modname, n):
    mod = importlib.import_module(modname)
    out = []
    for k in range(n):
        seed = usimlib.run_seed(424242, mod.PROP, k)
        p = mod.gen_plan(seed, k)
        if isinstance(p, tuple):
            p = p[0]
        out.append(p)
    return out


def _run(args):
    modname, n, order, flavour = args
    plans = plans_of(modname, n)
    idx = list(range(n))
    if order == "rev":
        idx.reverse()
    elif order == "odd-even":
        idx = idx[1::2] + idx[0::2]
    u = usimlib.Usim(flavour)
    res = {}
    for k in idx:
        r = u.run(plans[k])
        end = r.end or {}
        res[k] = (end.get("trace_hash"), end.get("sched_hash"), r.verdict[0] if r.verdict else None, r.crash[0] if r.crash else None)
    u.close()
    return (modname, order, res)


def main(workers=16, n=250, flavour="plain"):
    t0 = time.time()
    jobs = []
    for m in MODS:
        for order in ("fwd", "rev", "odd-even"):
            jobs.append((m, n, order, flavour))
    ctx = mp.get_context("fork")
    with ctx.Pool(min(workers, len(jobs))) as pool:
        results = pool.map(_run, jobs)
    by = {}
    for (m, order, res) in results:
        by.setdefault(m, {})[order] = res
    bad = 0
    total = 0
    for m, d in sorted(by.items()):
        mism = 0
        for k in d["fwd"]:
            total += 1
            if not (d["fwd"][k] == d["rev"][k] == d["odd-even"][k]):
                mism += 1
                if mism <= 3:
                    print("MISMATCH %s seed-index %d: %s / %s / %s" % (m, k, d["fwd"][k], d["rev"][k], d["odd-even"][k]))
        print("selftest %s: %d seeds x 3 process histories, %d mismatches" % (m, len(d["fwd"]), mism))
        bad += mism
    print("selftest: %d seeds, %d mismatches, %.1fs" % (total, bad, time.time() - t0))
    return 2 if bad else 0


if __name__ == "__main__":
    sys.exit(main())
