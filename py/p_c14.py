"""C14 — Serialized state resumes to identical behaviour.

Original run O of a generated chart under a history H, with a snapshot
(Interpreter::serialize) taken at every step that returns MACROSTEPPED or IDLE.
For sampled snapshot points the interpreter is "killed" there: a second run
creates a fresh interpreter for the same document, deserializes the snapshot
text and executes the remaining history; its recorded behaviour must equal O's
suffix.  A snapshot of a different document must be rejected.
See DESIGN.md 6/C14.
"""
import json

import gen
import p_c01
import usimlib
from tracelib import *

PROP = "C14"
LEVEL = "fault_enumeration"
FLAVOUR = "plain"
TIERS = {"quick": (5000, 170), "thorough": (200000, 3300)}
RULE_TEXT = ("one run = one generated chart x one history, snapshots at every stable point of the original run; up to 3 snapshot points per run are resumed in a fresh "
             "interpreter (kill + restore) and compared with the original suffix; plus one foreign-snapshot rejection test per run; both engines; "
             "non-trivial = a resumed run that processed at least one further event; distinct = distinct (chart, history, snapshot index) hashes")
ASSUMPTIONS = [
    "snapshot points are sampled (up to 3 of the stable points per original run), not all enumerated",
    "downtime is zero: the resumed interpreter continues at the simulated instant of the snapshot; how real downtime should count for pending delays is not specified by the property",
    "invocations: 35% of the lua/promela charts invoke the harness's thread-free 'echo' invoker (replies reveal the arguments it was started with); 1.5% of the plans are a scenario that snapshots a session whose invoked SCXML child rests (known finding: serialize() does not return)",
]


class Context(object):
    def __init__(self, prop, tier, opts):
        self.opts = opts


def scxml_child_plan(seed, k, rp):
    """Scenario S: a snapshot of a session whose invoked SCXML child is resting.  serialize() has to return."""
    from scx import El
    child = El("scxml", {"version": "1.0", "datamodel": "null", "initial": "c", "name": "sub"})
    c = child.add(El("state", {"id": "c"}))
    if rp.random() < 0.5:
        c.add(El("onentry", children=[El("send", {"event": "ct", "delay": "3600000ms"})]))
    c.add(El("transition", {"event": "x", "target": "c"}))
    root = El("scxml", {"version": "1.0", "datamodel": "null", "initial": "s"})
    st = root.add(El("state", {"id": "s"}))
    st.add(El("invoke", {"type": "scxml", "id": "sub"}, children=[El("content", children=[child])]))
    st.add(El("transition", {"event": "a", "target": "t"}))
    t = root.add(El("state", {"id": "t"}))
    t.add(El("transition", {"event": "a", "target": "s"}))
    engine = rp.choice(["large", "fast"])
    ops = [{"op": "create", "i": 0, "chart": "main", "engine": engine},
           {"op": "run", "i": 0, "block": 0, "until": ["IDLE"], "max": 60}, {"op": "sleep", "ms": rp.choice([1, 5, 20])},
           {"op": "serialize", "i": 0, "slot": "s"},
           {"op": "recv", "i": 0, "name": "a"}, {"op": "run", "i": 0, "block": 0, "until": ["IDLE"], "max": 60}]
    return {"id": k, "seed": seed, "entropy_seed": seed & 0x7fffffff, "engine": engine, "mode": "S",
            "sched": {"seed": seed & 0x7fffffff, "policy": "nonpreempt", "max_decisions": 400000},
            "charts": {"main": root.xml(), "other": root.xml()}, "actors": {"main": ops}}


def scenario_s(plan, res):
    v = hard_failures(res, PROP)
    if not v and not any(r[KIND] == "snap" for r in res.lines):
        v.append(("C14.snapshot-returns", "serialize() of a session with a resting invoked child produced no snapshot"))
    return v


def gen_plan(seed, k):
    rp = usimlib.substream(seed, "plan")
    if rp.random() < 0.015:
        return scxml_child_plan(seed, k, rp)
    dm = rp.choice(["lua", "lua", "promela", "null"])
    root = p_c01.gen_chart(rp, dm, {"sends": True, "hist_p": 0.45, "par_p": 0.2})
    if dm != "null" and rp.random() < 0.35:
        add_echo_invocation(root, rp, dm)
    engine = rp.choice(["large", "fast"])
    ops = [{"op": "create", "i": 0, "chart": "main", "engine": engine}, {"op": "validate", "i": 0}]
    hist = p_c01.history_ops(rp, many=(True if (root.meta or {}).get("par_bias") and rp.random() < 0.8 else None))
    for o in hist:
        if o["op"] == "run":
            o["snap"] = True
        elif o["op"] == "recv" and rp.random() < 0.4:
            # queued events carry a payload: params under several names (one of them twice), a namelist entry
            o["params"] = [[nm, json.dumps(rp.choice([1, "x", [1, 2], {"k": "v"}]))] for nm in rp.sample(["alpha", "beta", "gamma", "beta"], rp.randint(2, 4))]
            if rp.random() < 0.4:
                o["namelist"] = [["zeta", json.dumps(rp.choice([0, "s"]))]]
    ops += hist
    other = p_c01.gen_chart(usimlib.substream(seed, "other"), dm, {})
    return {"id": k, "seed": seed, "entropy_seed": seed & 0x7fffffff, "engine": engine,
            "sched": {"seed": seed & 0x7fffffff, "policy": "nonpreempt", "max_decisions": 400000},
            "charts": {"main": root.xml(), "other": other.xml()}, "actors": {"main": ops}}


def add_echo_invocation(root, rp, dm):
    """An invocation of the harness's thread-free 'echo' invoker (harness/echo.cpp) whose argument is a datamodel value
    that the invoking state changes on entry; transitions ping it, and its replies carry the argument it was started
    with.  A restored session re-creates the invocation: it must be given the restored value."""
    from scx import El
    states = [e for e in root.walk() if e.tag == "state"]
    if not states:
        return
    dmel = [c for c in root.children if c.tag == "datamodel"]
    if not dmel:
        dmel = [El("datamodel")]
        root.children.insert(0, dmel[0])
        dmel[0].parent = root
    at = {"id": "vinv", "expr": "1"}
    if dm == "promela":
        at["type"] = "int"
    dmel[0].add(El("data", at))
    st = rp.choice(states)
    st.add(El("onentry", children=[El("assign", {"location": "vinv", "expr": "vinv + 4"})]))
    st.add(El("invoke", {"type": "echo", "id": "ech"}, children=[El("param", {"name": "p", "expr": "vinv"})]))
    # pinged from where the invocation is running: by the invoking state itself and by transitions below it (a few
    # from elsewhere, too: these fail with error.communication in both runs)
    ping = El("transition", {"event": "a b c d"}, children=[El("send", {"target": "#_ech", "event": "ping"})])
    st.children.insert(0, ping)
    ping.parent = st
    below = [t for t in st.walk() if t.tag == "transition" and t is not ping and t.attrs.get("event") and t.parent.tag in ("state", "parallel")]
    trans = [t for t in root.walk() if t.tag == "transition" and t is not ping and t.attrs.get("event") and t.parent.tag in ("state", "parallel")]
    for t in rp.sample(below, min(len(below), rp.randint(1, 4))) + rp.sample(trans, min(len(trans), rp.randint(0, 2))):
        t.add(El("send", {"target": "#_ech", "event": "ping"}))
    if rp.random() < 0.5:
        st.add(El("transition", {"event": "echo"}, children=[El("log", {"label": "echo", "expr": "_event.name" if dm == "lua" else "vinv"})]))


def resume_plan(plan, op_index, snapshot_text, t_us):
    """fresh interpreter + deserialize + the rest of the history (the interrupted run op is continued)"""
    ops = plan["actors"]["main"]
    create = dict(ops[0])
    rest = [dict(o) for o in ops[op_index:]]
    for o in rest:
        o.pop("snap", None)
    new_ops = [create]
    if t_us > 0:
        # keep the simulated clock aligned with the original (downtime 0)
        new_ops.append({"op": "sleep_us", "us": t_us})
    new_ops += [{"op": "deserialize", "i": 0, "text": snapshot_text}, {"op": "mark", "name": "resumed"}] + rest
    q = dict(plan)
    q["actors"] = {"main": new_ops}
    return q


KEEP = ("ev", "bms", "ams", "bxs", "bes", "btt", "bxc", "stb", "bcp", "acp", "log", "st")


def norm(lines, start_seq=None, after_mark=None):
    out = []
    on = start_seq is None and after_mark is None
    for r in lines:
        if not on:
            if start_seq is not None and r[SEQ] > start_seq:
                on = True
            elif after_mark is not None and r[KIND] == "mark" and r[5] == after_mark:
                on = True
                continue
            else:
                continue
        kd = r[KIND]
        if r[SESS] == "i0" and kd in KEEP:
            f = r[5:]
            if kd == "stb":
                # whether the stable-configuration notice was already given is not part of the snapshot:
                # a resumed interpreter announces it once more; not a behavioural difference of the chart
                continue
            if kd == "ev":
                f = [r[5].get("name"), r[5].get("data", "")[:60], r[5].get("params", "")[:200], r[5].get("namelist", "")[:100]]
            if kd == "st":
                # only the configuration (and the terminal result) matter, not how many idle/macrostep results are returned
                f = [r[6], r[5] if r[5] in ("FINISHED", "EXC") else ""]
                if out and out[-1][0] == "st" and out[-1][1] == json.dumps(f):
                    continue
                if not r[6] and r[5] not in ("FINISHED", "EXC"):
                    continue
            out.append((kd, json.dumps(f)))
    # a leading configuration record equal to the snapshot configuration carries no information
    return out


def structural_state(text):
    try:
        x = json.loads(text)
    except ValueError:
        return None
    if isinstance(x, dict) and isinstance(x.get("microstepper"), dict):
        # which active states had their invocations started is bookkeeping that depends on whether a macrostep ended since
        x["microstepper"].pop("invocations", None)
    return x


def snapshots_of(res):
    return [(r[SEQ], r[T], r[5], r[6], r[7]) for r in res.lines if r[KIND] == "snap" and r[SESS] == "i0"]


def check_resume(plan, res, snap, usim):
    seq, t_us, op_index, stepk, text = snap
    v = []
    q = resume_plan(plan, op_index, text, t_us)
    r2 = usim.run(q)
    if r2.failed_hard():
        hf = hard_failures(r2, PROP)
        return [(hf[0][0], "resuming the snapshot taken at seq %d: %s" % (seq, hf[0][1][:600]))] if hf else [], 0
    for r in r2.lines:
        if r[KIND] == "exc" and r[5] == "deserialize":
            return [("C14.resume-equal", "deserialize() of the interpreter's own snapshot (taken at seq %d) failed: %s %s %s" % (seq, r[6], r[7], r[8]))], 0
    a = norm(res.lines, start_seq=seq)
    b = norm(r2.lines, after_mark="resumed")
    # drop a leading pure configuration record on both sides (the snapshot point itself)
    cfg0 = None
    for r in res.lines:
        if r[SEQ] <= seq and r[KIND] == "st" and r[SESS] == "i0" and r[6]:
            cfg0 = json.dumps([r[6], ""])
    while a and a[0] == ("st", cfg0):
        a.pop(0)
    while b and b[0] == ("st", cfg0):
        b.pop(0)
    # the original continues inside the interrupted run op; the resumed one starts the same op anew: both stop at the same state
    n_events = len([x for x in b if x[0] == "ev"])

    def capped(lines):
        return any(r[KIND] == "op>" and r[6] == "run" and r[7] not in ("IDLE", "FINISHED", "EXC", "NOINTERP") for r in lines)
    if capped(res.lines) or capped(r2.lines):
        # a run op ended at its step cap (endless loop in the chart): the two runs were cut at different points
        # of the loop and interleave the harness events differently; nothing can be compared
        return [], 0
    if a != b:
        d = 0
        while d < min(len(a), len(b)) and a[d] == b[d]:
            d += 1
        pend = pending_delayed_at(res, seq)
        v.append(("C14.resume-equal", "resumed run (snapshot at seq %d, t=%dus, op %d) differs from the original suffix at record %d: original=%s resumed=%s; pending delayed sends at the snapshot=%s; payloads in queue=%s" % (
            seq, t_us, op_index, d, a[d] if d < len(a) else None, b[d] if d < len(b) else None, json.dumps(pend), "?")))
    return v, n_events


def pending_delayed_at(res, seq):
    """names of delayed sends registered before seq and neither delivered nor cancelled before seq"""
    b = Bindings(res.lines)
    dq, eq = b.dly.get("i0"), b.ext.get("i0")
    pend = {}
    for r in res.lines:
        if r[SEQ] > seq:
            break
        if r[KIND] == "dly<" and r[SESS] == dq:
            pend[r[7]] = r[5]["name"]
        elif r[KIND] in ("cnl>",) and r[SESS] == dq:
            pend.pop(r[5], None)
        elif r[KIND] == "cna>" and r[SESS] == dq:
            pend.clear()
        elif r[KIND] == "enq<" and r[SESS] == eq:
            pend.pop(r[7], None)
    return sorted(pend.values())


def check_identity_all(plan, snaps, usim, limit=16):
    """every distinct snapshot of the run (not only the sampled resume points) is restored into a fresh interpreter and read
    back at once: deserialize + serialize is the identity on the state"""
    texts = []
    for sn in snaps:
        st = structural_state(sn[4])
        # a restored interpreter only lets itself be serialised after a step; with an empty external queue and a stable
        # configuration that step changes nothing (snapshots with queued events are covered by the resume comparison)
        if sn[4] not in texts and isinstance(st, dict) and not st.get("externalQueue"):
            texts.append(sn[4])
    texts = texts[:limit]
    if not texts:
        return [], 0
    create = dict(plan["actors"]["main"][0])
    ops = []
    for n, t in enumerate(texts):
        ops += [dict(create), {"op": "deserialize", "i": 0, "text": t}, {"op": "step", "i": 0, "block": 0},
                {"op": "serialize", "i": 0, "slot": "rb%d" % n}, {"op": "destroy", "i": 0}]
    q = dict(plan)
    q["actors"] = {"main": ops}
    r = usim.run(q)
    if r.failed_hard():
        hf = hard_failures(r, PROP)
        return ([(hf[0][0], "restoring the run's snapshots one after the other: %s" % hf[0][1][:600])] if hf else []), 0
    back = {r_[5]: r_[6] for r_ in r.lines if r_[KIND] == "snap"}
    nhist = 0
    for n, t in enumerate(texts):
        sa = structural_state(t)
        if isinstance(sa, dict) and isinstance(sa.get("microstepper"), dict) and sa["microstepper"].get("histories"):
            nhist += 1
        if "rb%d" % n not in back:
            continue
        sb = structural_state(back["rb%d" % n])
        if sa is not None and sb is not None and sa != sb:
            keys = [k_ for k_ in sorted(set(sa) | set(sb)) if sa.get(k_) != sb.get(k_)] if isinstance(sa, dict) and isinstance(sb, dict) else []
            return [("C14.snapshot-identity", "deserialize() followed by serialize() does not give snapshot %d of the run back; differing parts %s: before=%s after=%s" % (
                n, keys, json.dumps({k_: sa.get(k_) for k_ in keys})[:500], json.dumps({k_: sb.get(k_) for k_ in keys})[:500]))], nhist
    return [], nhist


def check_foreign(plan, usim):
    """a snapshot of another document must be rejected"""
    q = dict(plan)
    ops = [{"op": "create", "i": 1, "chart": "other", "engine": plan["engine"]},
           {"op": "run", "i": 1, "block": 0, "until": ["IDLE"], "max": 60},
           {"op": "serialize", "i": 1, "slot": "foreign"},
           {"op": "create", "i": 0, "chart": "main", "engine": plan["engine"]},
           {"op": "deserialize", "i": 0, "slot": "foreign"}]
    q["actors"] = {"main": ops}
    r = usim.run(q)
    if r.failed_hard():
        return []
    if plan["charts"]["main"] == plan["charts"]["other"]:
        return []
    ser_ok = any(x[KIND] == "snap" for x in r.lines)
    rejected = any(x[KIND] == "exc" and x[5] == "deserialize" for x in r.lines)
    if ser_ok and not rejected:
        return [("C14.foreign-rejected", "deserialize() accepted the snapshot of a different document")]
    return []


def evaluate(plan, usim):
    res = usim.run(plan)
    if plan.get("mode") == "S":
        return scenario_s(plan, res)
    v = hard_failures(res, PROP, kinds=("crash",))
    if res.failed_hard():
        return v
    only = plan.get("only_snapshot")
    for n, snap in enumerate(snapshots_of(res)):
        if only is not None and n != only:
            continue
        v += check_resume(plan, res, snap, usim)[0]
        if v:
            break
    if not v and only is None:
        v += check_identity_all(plan, snapshots_of(res), usim)[0]
    v += check_foreign(plan, usim)
    return v


def run_one(ctx, usim, seed, k, acc):
    plan = gen_plan(seed, k)
    res = usim.run(plan)
    end = res.end or {}
    acc.sim_ms += end.get("sim_ms", 0)
    acc.decisions += end.get("decisions", 0)
    acc.count("pol.nonpreempt")
    acc.count("engine." + plan["engine"])
    if plan.get("mode") == "S":
        acc.count("scenario.snapshot_with_resting_scxml_child")
        for (rule, detail) in scenario_s(plan, res)[:1]:
            acc.violations.append({"rule": rule, "detail": detail, "plan": plan, "k": k})
        return
    v = hard_failures(res, PROP, kinds=("crash",))
    if res.failed_hard() or any(r[KIND] == "op>" and r[6] == "validate" and r[7] == "FATAL" for r in res.lines):
        acc.count("runs_skipped_fatal_or_ended_by_other_property")
        for (rule, detail) in v:
            acc.violations.append({"rule": rule, "detail": detail, "plan": plan, "k": k})
            break
        return
    snaps = snapshots_of(res)
    acc.count("probe.snapshots_taken", len(snaps))
    rp = usimlib.substream(seed, "snappick")
    chosen = sorted(rp.sample(range(len(snaps)), min(3, len(snaps))))
    for n in chosen:
        pend = pending_delayed_at(res, snaps[n][0])
        acc.count("fault.kill_and_restore")
        acc.count("probe.snapshot_with_pending_delayed_send", 1 if pend else 0)
        rv, nev = check_resume(plan, res, snaps[n], usim)
        if nev >= 1:
            acc.hashes.add(usimlib.hashlib.sha256((plan["charts"]["main"] + json.dumps(plan["actors"]) + str(n)).encode()).hexdigest()[:16])
        if rv:
            p2 = dict(plan)
            p2["only_snapshot"] = n
            acc.violations.append({"rule": rv[0][0], "detail": rv[0][1], "plan": p2, "k": k})
            break
    if not [x for x in acc.violations if x["k"] == k]:
        iv, nhist = check_identity_all(plan, snaps, usim)
        acc.count("probe.snapshots_read_back", min(len(set(sn[4] for sn in snaps)), 16))
        acc.count("probe.snapshots_with_remembered_history", nhist)
        for (rule, detail) in iv:
            acc.violations.append({"rule": rule, "detail": detail, "plan": plan, "k": k})
    fv = check_foreign(plan, usim)
    acc.count("fault.foreign_snapshot")
    for (rule, detail) in fv:
        acc.violations.append({"rule": rule, "detail": detail, "plan": plan, "k": k})
    if len(acc.samples) < 1 and snaps and k < 64:
        acc.samples.append({"run": k, "seed": seed, "engine": plan["engine"], "chart": plan["charts"]["main"], "ops": plan["actors"]["main"],
                            "snapshots": len(snaps), "snapshot_example": snaps[0][4][:600]})


def classify(rule, detail, plan):
    import re
    if (rule.startswith("C14.stuck[") and "mutex" in rule and "blocked on mutex held by" in detail and "in API call serialize" in detail
            and "blocked on cond (no deadline)" in detail and '<invoke type="scxml"' in plan["charts"]["main"]):
        return "C14-serialize-waits-for-resting-scxml-child"
    if rule == "C14.resume-equal":
        m = re.search(r"original=\('ev', '\[\"([^\"]+)\"", detail)
        p = re.search(r"pending delayed sends at the snapshot=(\[.*?\]);", detail)
        if m and p:
            try:
                pend = json.loads(p.group(1))
            except ValueError:
                pend = []
            if m.group(1) in pend:
                return "C14-pending-delayed-events-not-in-snapshot"
        # the lost event may carry the name of a later harness event, which then fills its place and moves the first visible
        # difference further down: decide by identity - did the original run, after the snapshot, process a delayed event
        # (same uuid) that was pending when the snapshot was taken?  Then the resumed run cannot be equal.
        if p and p.group(1) != "[]" and plan.get("only_snapshot") is not None:
            u = usimlib.Usim(FLAVOUR)
            try:
                res = u.run({k_: v_ for k_, v_ in plan.items() if k_ != "only_snapshot"})
            finally:
                u.kill()
            if not res.failed_hard():
                snaps = snapshots_of(res)
                n = plan["only_snapshot"]
                if n < len(snaps):
                    seq = snaps[n][0]
                    b = Bindings(res.lines)
                    dq, eq = b.dly.get("i0"), b.ext.get("i0")
                    pend_uuid = set()
                    for r in res.lines:
                        if r[SEQ] > seq:
                            break
                        if r[KIND] == "dly<" and r[SESS] == dq:
                            pend_uuid.add(r[7])
                        elif r[KIND] == "cnl>" and r[SESS] == dq:
                            pend_uuid.discard(r[5])
                        elif r[KIND] == "cna>" and r[SESS] == dq:
                            pend_uuid.clear()
                        elif r[KIND] == "enq<" and r[SESS] in (eq, b.int.get("i0")) and len(r) > 7:
                            pend_uuid.discard(r[7])
                    for r in res.lines:
                        if r[SEQ] > seq and r[KIND] == "ev" and r[SESS] == "i0" and len(r) > 6 and r[6] in pend_uuid:
                            return "C14-pending-delayed-events-not-in-snapshot"
    return None
