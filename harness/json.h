// Minimal JSON value + parser + writer for plans and replay files.
// Deliberately independent of uscxml::Data (which is a subject under test).
#pragma once
#include <cstdint>
#include <cstdio>
#include <cstdlib>
#include <map>
#include <stdexcept>
#include <string>
#include <vector>

namespace js {

struct Value {
	enum T { NUL, BOOL, NUM, STR, ARR, OBJ } t = NUL;
	bool b = false;
	double n = 0;
	std::string s;
	std::vector<Value> a;
	std::vector<std::pair<std::string, Value>> o;

	bool isNull() const { return t == NUL; }
	bool has(const std::string& k) const {
		for (auto& kv : o) if (kv.first == k) return true;
		return false;
	}
	const Value& operator[](const std::string& k) const {
		static Value nul;
		for (auto& kv : o) if (kv.first == k) return kv.second;
		return nul;
	}
	const Value& operator[](size_t i) const {
		static Value nul;
		return i < a.size() ? a[i] : nul;
	}
	size_t size() const { return t == ARR ? a.size() : o.size(); }
	std::string str(const std::string& def = "") const { return t == STR ? s : def; }
	double num(double def = 0) const { return t == NUM ? n : (t == BOOL ? (b ? 1 : 0) : def); }
	int64_t i64(int64_t def = 0) const { return t == NUM ? (int64_t)n : (t == BOOL ? (b ? 1 : 0) : def); }
	bool boolean(bool def = false) const { return t == BOOL ? b : (t == NUM ? n != 0 : def); }
};

struct Parser {
	const char* p;
	const char* e;
	explicit Parser(const std::string& s) : p(s.data()), e(s.data() + s.size()) {}
	void ws() { while (p < e && (*p == ' ' || *p == '\n' || *p == '\t' || *p == '\r')) p++; }
	[[noreturn]] void fail(const char* m) { throw std::runtime_error(std::string("json: ") + m); }
	Value parse() {
		ws();
		if (p >= e) fail("eof");
		Value v;
		switch (*p) {
		case '{': {
			p++;
			v.t = Value::OBJ;
			ws();
			if (p < e && *p == '}') { p++; return v; }
			for (;;) {
				ws();
				if (p >= e || *p != '"') fail("key");
				std::string k = parseStr();
				ws();
				if (p >= e || *p != ':') fail("colon");
				p++;
				v.o.emplace_back(k, parse());
				ws();
				if (p < e && *p == ',') { p++; continue; }
				if (p < e && *p == '}') { p++; break; }
				fail("obj");
			}
			return v;
		}
		case '[': {
			p++;
			v.t = Value::ARR;
			ws();
			if (p < e && *p == ']') { p++; return v; }
			for (;;) {
				v.a.push_back(parse());
				ws();
				if (p < e && *p == ',') { p++; continue; }
				if (p < e && *p == ']') { p++; break; }
				fail("arr");
			}
			return v;
		}
		case '"':
			v.t = Value::STR;
			v.s = parseStr();
			return v;
		case 't':
			if (e - p >= 4 && std::string(p, 4) == "true") { p += 4; v.t = Value::BOOL; v.b = true; return v; }
			fail("lit");
		case 'f':
			if (e - p >= 5 && std::string(p, 5) == "false") { p += 5; v.t = Value::BOOL; v.b = false; return v; }
			fail("lit");
		case 'n':
			if (e - p >= 4 && std::string(p, 4) == "null") { p += 4; return v; }
			fail("lit");
		default: {
			char* end = nullptr;
			v.n = strtod(p, &end);
			if (end == p) fail("num");
			p = end;
			v.t = Value::NUM;
			return v;
		}
		}
	}
	static void utf8(std::string& out, unsigned cp) {
		if (cp < 0x80) out += (char)cp;
		else if (cp < 0x800) { out += (char)(0xC0 | (cp >> 6)); out += (char)(0x80 | (cp & 0x3F)); }
		else if (cp < 0x10000) { out += (char)(0xE0 | (cp >> 12)); out += (char)(0x80 | ((cp >> 6) & 0x3F)); out += (char)(0x80 | (cp & 0x3F)); }
		else { out += (char)(0xF0 | (cp >> 18)); out += (char)(0x80 | ((cp >> 12) & 0x3F)); out += (char)(0x80 | ((cp >> 6) & 0x3F)); out += (char)(0x80 | (cp & 0x3F)); }
	}
	std::string parseStr() {
		std::string out;
		p++; // "
		while (p < e && *p != '"') {
			if (*p == '\\') {
				p++;
				if (p >= e) fail("esc");
				switch (*p) {
				case 'n': out += '\n'; break;
				case 't': out += '\t'; break;
				case 'r': out += '\r'; break;
				case 'b': out += '\b'; break;
				case 'f': out += '\f'; break;
				case 'u': {
					if (e - p < 5) fail("u");
					unsigned cp = (unsigned)strtoul(std::string(p + 1, 4).c_str(), nullptr, 16);
					p += 4;
					if (cp >= 0xD800 && cp < 0xDC00 && e - p >= 7 && p[1] == '\\' && p[2] == 'u') {
						unsigned lo = (unsigned)strtoul(std::string(p + 3, 4).c_str(), nullptr, 16);
						cp = 0x10000 + ((cp - 0xD800) << 10) + (lo - 0xDC00);
						p += 6;
					}
					utf8(out, cp);
					break;
				}
				default: out += *p;
				}
				p++;
			} else out += *p++;
		}
		if (p >= e) fail("str");
		p++;
		return out;
	}
};

inline Value parse(const std::string& s) {
	Parser ps(s);
	return ps.parse();
}

inline std::string esc(const std::string& s) {
	std::string o = "\"";
	for (unsigned char c : s) {
		switch (c) {
		case '"': o += "\\\""; break;
		case '\\': o += "\\\\"; break;
		case '\n': o += "\\n"; break;
		case '\t': o += "\\t"; break;
		case '\r': o += "\\r"; break;
		default:
			if (c < 0x20) {
				char buf[8];
				snprintf(buf, sizeof buf, "\\u%04x", c);
				o += buf;
			} else o += (char)c;
		}
	}
	return o + "\"";
}

} // namespace js
