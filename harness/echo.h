#pragma once
namespace h {
void registerEchoInvoker();
}
