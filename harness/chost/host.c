/* usim-chost: hosts the ANSI-C machine that ChartToC emitted for one chart (C04).
 * Build: gcc -O0 -g -fsanitize=address,undefined -DMACHINE_FILE='"machine.c"' host.c -o host
 * Run:   ./host ev1 ev2 ...      external events, in the order the interpreter dequeued them
 * Output (one token per line, same vocabulary as py/refine.py):
 *   E <name>      event dequeued (internal or external)
 *   l <label>     <log>            r <name>   internal event raised (raise, send #_internal, done.state.*)
 *   s <name> <delay>  <send> to the external queue     k <sendid>  <cancel>
 *   cfg <ids>     configuration after a step that changed it
 * The callbacks are backed by the host's own queues; conditions are the null datamodel's In('id') predicate.
 * External events come only from the command line: the chart's own sends to its external queue are part of
 * the given order already, so the host prints them but does not enqueue them. */
#include <stdio.h>
#include <stdlib.h>
#include <string.h>
#include <ctype.h>

#include MACHINE_FILE

typedef struct { char name[96]; } host_event;

#define QMAX 4096
static host_event iq[QMAX];
static int iq_head = 0, iq_tail = 0;
static char** ext_argv;
static int ext_n = 0, ext_next = 0;
static host_event cur_ext;
static host_event cur_int;
static int activity = 0;

static void iq_push(const char* name) {
	if (iq_tail >= QMAX) { printf("HOSTERR internal queue overflow\n"); exit(3); }
	strncpy(iq[iq_tail].name, name, sizeof(iq[0].name) - 1);
	iq[iq_tail].name[sizeof(iq[0].name) - 1] = 0;
	iq_tail++;
}

static void* dequeue_internal(const uscxml_ctx* ctx) {
	if (iq_head == iq_tail) return NULL;
	cur_int = iq[iq_head++];
	printf("E %s\n", cur_int.name);
	activity = 1;
	return &cur_int;
}

static void* dequeue_external(const uscxml_ctx* ctx) {
	if (ext_next >= ext_n) return NULL;
	strncpy(cur_ext.name, ext_argv[ext_next++], sizeof(cur_ext.name) - 1);
	printf("E %s\n", cur_ext.name);
	activity = 1;
	return &cur_ext;
}

/* Recommendation 3.12.1, written from the text */
static int name_match(const char* descs, const char* name) {
	const char* p = descs;
	size_t nlen = strlen(name);
	while (*p) {
		while (*p && isspace((unsigned char)*p)) p++;
		const char* start = p;
		while (*p && !isspace((unsigned char)*p)) p++;
		size_t len = (size_t)(p - start);
		if (len == 0) break;
		if (len == 1 && start[0] == '*') return 1;
		if (len >= 2 && start[len - 2] == '.' && start[len - 1] == '*') len -= 2;
		else if (start[len - 1] == '.') len -= 1;
		if (len == nlen && strncmp(start, name, len) == 0) return 1;
		if (len < nlen && strncmp(start, name, len) == 0 && name[len] == '.') return 1;
	}
	return 0;
}

static int is_matched(const uscxml_ctx* ctx, const uscxml_transition* t, const void* event) {
	return name_match(t->event, ((const host_event*)event)->name);
}

static int is_true(const uscxml_ctx* ctx, const char* expr) {
	/* null datamodel: In('id') */
	const char* q = strchr(expr, '\'');
	if (!q) return 0;
	const char* e = strrchr(expr, '\'');
	if (e <= q) return 0;
	size_t len = (size_t)(e - q - 1);
	for (size_t i = 0; i < ctx->machine->nr_states; i++) {
		const char* n = ctx->machine->states[i].name;
		if (n && strlen(n) == len && strncmp(n, q + 1, len) == 0)
			return (ctx->config[i >> 3] & (1 << (i & 7))) != 0;
	}
	return 0;
}

static int raise_done_event(const uscxml_ctx* ctx, const uscxml_state* state, const uscxml_elem_donedata* donedata) {
	char buf[96];
	snprintf(buf, sizeof buf, "done.state.%s", state->name ? state->name : "?");
	/* the data the done event carries is part of what the chart can observe */
	if (donedata && donedata->content)
		printf("r %s dd=%s\n", buf, donedata->content);
	else if (donedata)
		printf("r %s dd=?\n", buf);
	else
		printf("r %s\n", buf);
	iq_push(buf);
	activity = 1;
	return USCXML_ERR_OK;
}

static int exec_content_log(const uscxml_ctx* ctx, const char* label, const char* expr) {
	printf("l %s\n", label ? label : "");
	activity = 1;
	return USCXML_ERR_OK;
}

static int exec_content_raise(const uscxml_ctx* ctx, const char* event) {
	printf("r %s\n", event);
	iq_push(event);
	activity = 1;
	return USCXML_ERR_OK;
}

static int exec_content_send(const uscxml_ctx* ctx, const uscxml_elem_send* send) {
	activity = 1;
	if (send->target && strcmp(send->target, "#_internal") == 0) {
		printf("r %s\n", send->event);
		iq_push(send->event);
		return USCXML_ERR_OK;
	}
	printf("s %s %lu\n", send->event ? send->event : "", send->delay);
	return USCXML_ERR_OK;
}

static int exec_content_cancel(const uscxml_ctx* ctx, const char* sendid, const char* sendidexpr) {
	printf("k %s\n", sendid ? sendid : "");
	activity = 1;
	return USCXML_ERR_OK;
}

static void print_config(const uscxml_ctx* ctx) {
	printf("cfg");
	for (size_t i = 0; i < ctx->machine->nr_states; i++) {
		if (ctx->config[i >> 3] & (1 << (i & 7))) {
			const uscxml_state* s = &ctx->machine->states[i];
			unsigned char t = s->type & 7;
			if (s->name && s->name[0] && (t == USCXML_STATE_ATOMIC || t == USCXML_STATE_PARALLEL || t == USCXML_STATE_COMPOUND || t == USCXML_STATE_FINAL))
				printf(" %s", s->name);
		}
	}
	printf("\n");
}

int main(int argc, char** argv) {
	uscxml_ctx ctx;
	memset(&ctx, 0, sizeof ctx);
	ctx.machine = &USCXML_MACHINE;
	ctx.dequeue_internal = dequeue_internal;
	ctx.dequeue_external = dequeue_external;
	ctx.is_matched = is_matched;
	ctx.is_true = is_true;
	ctx.raise_done_event = raise_done_event;
	ctx.exec_content_log = exec_content_log;
	ctx.exec_content_raise = exec_content_raise;
	ctx.exec_content_send = exec_content_send;
	ctx.exec_content_cancel = exec_content_cancel;
	ext_argv = argv + 1;
	ext_n = argc - 1;
	int steps = 0;
	unsigned char last[sizeof ctx.config];
	memset(last, 0, sizeof last);
	for (;;) {
		activity = 0;
		int err = uscxml_step(&ctx);
		steps++;
		if (memcmp(last, ctx.config, sizeof last) != 0) print_config(&ctx);
		memcpy(last, ctx.config, sizeof last);
		if (err == USCXML_ERR_DONE) { printf("done\n"); break; }
		if (err == USCXML_ERR_IDLE) {
			if (ext_next >= ext_n) { printf("idle\n"); break; }
			continue;
		}
		if (err != USCXML_ERR_OK) { printf("HOSTERR step returned %d\n", err); break; }
		if (steps > 5000) { printf("HOSTERR step budget\n"); break; }
	}
	return 0;
}
