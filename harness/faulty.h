// FaultyDataModel: decorator around the real datamodels that injects transient
// error.execution failures at the n-th evaluation of chosen expressions
// (DESIGN.md 4.3).
#pragma once
#include "recorder.h"
namespace h {
void registerFaultyDataModels();
void installFaultPlan(uscxml::Interpreter& interp, const js::Value& faults);
void resetFaultStats();
std::string faultStatsJSON();
}
