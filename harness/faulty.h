// FaultyDataModel: decorator around the real datamodels that injects transient
// error.execution failures into datamodel calls made from executable content
// (DESIGN.md 4.3, C07 mode T).
#pragma once
#include "recorder.h"
#include "uscxml/plugins/DataModel.h"
namespace h {
extern std::vector<std::string> g_contentStack;
void registerFaultyDataModels();
uscxml::DataModel makeFaultyDataModel(uscxml::Interpreter& interp, const js::Value& faults, const std::string& tag);
void contentLeft();
void installFaultPlan(uscxml::Interpreter& interp, const js::Value& faults);
void resetFaultStats();
std::string faultStatsJSON();
}
