// usim — plan executor.  Reads one JSON plan per line on stdin, executes it
// inside the simulator against the real uSCXML code, writes the recorded
// history as JSON lines on stdout, terminated by an ["end",...] line.
// See DESIGN.md sections 3–5.
#include "uscxml/config.h"
#include "uscxml/Interpreter.h"
#include "uscxml/interpreter/InterpreterImpl.h"
#include "uscxml/interpreter/InterpreterMonitor.h"
#include "uscxml/interpreter/BasicEventQueue.h"
#include "uscxml/interpreter/BasicDelayedEventQueue.h"
#include "uscxml/interpreter/LoggingImpl.h"
#include "uscxml/interpreter/MicroStepImpl.h"
#include "uscxml/debug/InterpreterIssue.h"
#include "uscxml/plugins/Factory.h"
#include "uscxml/util/DOM.h"
#include "uscxml/util/UUID.h"

#include <execinfo.h>
#include <signal.h>
#include <unistd.h>

#include <iostream>
#include <map>
#include <memory>
#include <sstream>
#include <thread>

#include "json.h"
#include "trace.h"
#include "recorder.h"
#include "../sim/sim.h"

using namespace uscxml;

extern "C" void usim_entropy_seed(uint64_t seed);
namespace usim { namespace ev {
extern long n_add, n_del, n_free, n_fired, n_loop, n_break, n_break_forgotten, n_del_blocked, n_del_while_running;
void reset_counters();
void collect();
} }

// ------------------------------------------------------------------------------
// trace buffer
// ------------------------------------------------------------------------------
namespace tr {
std::string buf;
uint64_t hash = 1469598103934665603ull;
void raw(const std::string& line) {
	for (unsigned char c : line) hash = (hash ^ c) * 1099511628211ull;
	buf += line;
	buf += '\n';
}
void flush_fd(int fd) {
	size_t off = 0;
	while (off < buf.size()) {
		ssize_t n = write(fd, buf.data() + off, buf.size() - off);
		if (n <= 0) break;
		off += (size_t)n;
	}
	buf.clear();
}
Rec::Rec(const std::string& sess, const char* kind) {
	s = "[";
	s += std::to_string(usim::next_seq());
	s += ',';
	s += std::to_string(usim::now_ns() / 1000);
	s += ',';
	s += std::to_string(usim::current_task());
	s += ',';
	s += js::esc(sess);
	s += ',';
	s += js::esc(kind);
}
Rec::~Rec() {
	s += ']';
	raw(s);
}
}

// ------------------------------------------------------------------------------
// crash containment
// ------------------------------------------------------------------------------
static volatile sig_atomic_t g_inCrash = 0;

static void emitCrashLine(const char* what, int sig) {
	char line[2048];
	void* bt[48];
	int n = backtrace(bt, 48);
	int off = snprintf(line, sizeof line, "[\"crash\",\"%s\",%d,[", what, sig);
	for (int i = 0; i < n && off < (int)sizeof line - 40; i++)
		off += snprintf(line + off, sizeof line - off, "%s\"%p\"", i ? "," : "", bt[i]);
	off += snprintf(line + off, sizeof line - off, "]]\n");
	tr::flush_fd(1);
	ssize_t r = write(1, line, off);
	(void)r;
}

static void onFatalSignal(int sig) {
	if (g_inCrash) _exit(128 + sig);
	g_inCrash = 1;
	emitCrashLine("signal", sig);
	_exit(128 + sig);
}

static void onTerminate() {
	std::string what = "terminate";
	try {
		std::exception_ptr ep = std::current_exception();
		if (ep) std::rethrow_exception(ep);
	} catch (const Event& e) {
		what = "uncaught uscxml::Event " + e.name;
	} catch (const std::exception& e) {
		what = std::string("uncaught std::exception ") + e.what();
	} catch (...) {
		what = "uncaught exception";
	}
	for (auto& c : what)
		if (c == '"' || c == '\\' || c == '\n') c = ' ';
	g_inCrash = 1;
	emitCrashLine(what.c_str(), SIGABRT);
	_exit(128 + SIGABRT);
}

extern "C" void __asan_set_death_callback(void (*)(void)) __attribute__((weak));
static void onAsanDeath() {
	tr::flush_fd(1);
	const char* l = "[\"crash\",\"sanitizer\",77,[]]\n";
	ssize_t r = write(1, l, strlen(l));
	(void)r;
}

#if defined(__SANITIZE_ADDRESS__)
extern "C" __attribute__((used)) const char* __asan_default_options() {
	return "exitcode=77:detect_leaks=0:abort_on_error=0:handle_segv=1:allocator_may_return_null=1:detect_stack_use_after_return=0";
}
extern "C" __attribute__((used)) const char* __ubsan_default_options() {
	return "print_stacktrace=1:halt_on_error=1:exitcode=77";
}
#endif

static void verdictHandler(const char* rule, const std::string& detail) {
	tr::raw(std::string("[\"verdict\",") + js::esc(rule) + "," + js::esc(detail) + "]");
	h::emitEnd(true);
	tr::flush_fd(1);
	_exit(0); // parked threads are left behind: the worker restarts us
}

// ------------------------------------------------------------------------------
// main loop
// ------------------------------------------------------------------------------
int simevent_selftest();

int main(int argc, char** argv) {
	bool quiet = true;
	for (int i = 1; i < argc; i++) {
		if (!strcmp(argv[i], "-v")) quiet = false;
		if (!strcmp(argv[i], "--simevent-selftest")) return simevent_selftest();
	}

	setenv("USCXML_NOCACHE_FILES", "1", 0);
	std::set_terminate(onTerminate);
#if !defined(__SANITIZE_ADDRESS__)
	signal(SIGSEGV, onFatalSignal);
	signal(SIGBUS, onFatalSignal);
	signal(SIGFPE, onFatalSignal);
	signal(SIGILL, onFatalSignal);
	signal(SIGABRT, onFatalSignal);
#else
	if (__asan_set_death_callback) __asan_set_death_callback(onAsanDeath);
	signal(SIGFPE, onFatalSignal);
#endif
	signal(SIGALRM, onFatalSignal);
	if (quiet) {
		// the subject's default logger writes to stderr/stdout; keep our protocol clean
		FILE* f = freopen("/dev/null", "w", stderr);
		(void)f;
	}
	usim::set_verdict_handler(verdictHandler);
	h::warmup();

	std::string line;
	while (std::getline(std::cin, line)) {
		if (line.empty()) continue;
		js::Value plan;
		try {
			plan = js::parse(line);
		} catch (std::exception& e) {
			printf("[\"harness-error\",\"bad plan json: %s\"]\n", e.what());
			fflush(stdout);
			return 2;
		}
		h::runPlan(plan);
		tr::flush_fd(1);
	}
	return 0;
}
