// Trace buffer: one JSON array per line,
//   [seq, t_us, task, "session", "kind", fields...]
// Logging never draws from a PRNG and never reads a real clock.
#pragma once
#include <string>
#include <initializer_list>
#include "json.h"
#include "../sim/sim.h"

namespace tr {

extern std::string buf;      // flushed by the executor (and by crash handlers)
extern uint64_t hash;        // FNV-1a over everything appended
void flush_fd(int fd);       // async-signal-tolerant flush
void raw(const std::string& line); // append a complete line (no seq)

struct Rec {
	std::string s;
	Rec(const std::string& sess, const char* kind);
	Rec& str(const std::string& v) { s += ','; s += js::esc(v); return *this; }
	Rec& num(long long v) { s += ','; s += std::to_string(v); return *this; }
	Rec& rawjson(const std::string& v) { s += ','; s += v; return *this; }
	~Rec();
};

} // namespace tr
