#include "transform_ops.h"
namespace h {
std::string doTransform(uscxml::Interpreter&, const js::Value&) { return "TODO"; }
void heapWarm(uint64_t, int) {}
}
