// Transformer ops (C20) and environment perturbation helpers.
#include "transform_ops.h"

#include "uscxml/transform/ChartToC.h"
#include "uscxml/transform/ChartToPromela.h"
#include "uscxml/transform/ChartToVHDL.h"
#include "uscxml/util/MD5.hpp"

#include <sstream>
#include <vector>
#include <stdlib.h>

namespace h {

std::string doTransform(uscxml::Interpreter& interp, const js::Value& op) {
	std::string kind = op["kind"].str("c");
	// ChartToC numbers the machines it emits with a process-wide counter kept in the environment (for builds that
	// transform several files in one process); the harness pins it so that every transformation is "the first"
	setenv("USCXML_CURRENT_MACHINE_INDEX", op["machine_index"].str("0").c_str(), 1);
	uscxml::Transformer t;
	if (kind == "c") t = uscxml::ChartToC::transform(interp);
	else if (kind == "pml") t = uscxml::ChartToPromela::transform(interp);
	else if (kind == "vhdl") t = uscxml::ChartToVHDL::transform(interp);
	else return "UNKNOWN-KIND";
	std::stringstream ss;
	t.writeTo(ss);
	std::string out = ss.str();
	std::string sum = uscxml::md5(out);
	std::string tag = "i" + std::to_string(op["i"].i64(0));
	tr::Rec r(tag, "xform");
	r.str(kind).num((long long)out.size()).str(sum);
	if (op["full"].boolean(false)) r.str(out);
	return sum;
}

// seeded allocate / free pattern: separately allocated blocks change their relative order
void heapWarm(uint64_t seed, int n) {
	static std::vector<void*> kept;
	uint64_t s = seed * 0x9E3779B97F4A7C15ull + 1;
	std::vector<void*> tmp;
	for (int i = 0; i < n; i++) {
		s ^= s << 13; s ^= s >> 7; s ^= s << 17;
		size_t sz = 16 + (size_t)(s % 3000);
		void* p = malloc(sz);
		if ((s >> 20) % 3 == 0) kept.push_back(p);
		else tmp.push_back(p);
	}
	for (size_t i = 0; i < tmp.size(); i += 2) free(tmp[i]);
	for (size_t i = 1; i < tmp.size(); i += 2) free(tmp[i]);
}

} // namespace h
