// FaultyDataModel: decorator around the real datamodels that injects transient error.execution failures into
// datamodel calls made while an element of executable content is running (C07, mode T).  Which calls fail is decided
// by a generator seeded from the plan; every injected fault is a trace record ("flt", kind, element, expression).
#include "faulty.h"
#include "uscxml/plugins/Factory.h"
#include "uscxml/plugins/DataModelImpl.h"
#include "uscxml/interpreter/InterpreterImpl.h"
#include "uscxml/util/DOM.h"

namespace h {

std::vector<std::string> g_contentStack;   // innermost element of executable content being run (maintained by RecMonitor)
static long g_faultsInjected = 0;
static long g_dmCalls = 0;

using namespace uscxml;

class FaultyDataModel : public DataModelImpl {
public:
	std::shared_ptr<DataModelImpl> real;
	std::string tag;
	uint64_t rng = 88172645463325252ull;
	double p = 0;
	size_t failedDepth = 0;   // content depth of the element that already got its fault
	std::string failedElem;

	FaultyDataModel(std::shared_ptr<DataModelImpl> r, const std::string& t, uint64_t seed, double prob) : real(r), tag(t), p(prob) {
		rng ^= seed * 0x9E3779B97F4A7C15ull;
		if (!rng) rng = 1;
	}
	double next() {
		rng ^= rng << 13; rng ^= rng >> 7; rng ^= rng << 17;
		return (double)(rng >> 11) / (double)(1ull << 53);
	}
	void maybeFail(const char* kind, const std::string& expr) {
		if (g_contentStack.empty()) return;   // conditions of transitions, data initialisation, setEvent: not here
		g_dmCalls++;
		const std::string& elem = g_contentStack.back();
		if (failedElem == elem && failedDepth == g_contentStack.size()) return;   // one fault per element execution
		if (next() < p) {
			failedElem = elem;
			failedDepth = g_contentStack.size();
			g_faultsInjected++;
			{ tr::Rec(tag, "flt").str(kind).str(elem).str(expr.substr(0, 80)); }
			ErrorEvent e;
			e.name = "error.execution";
			e.data.compound["cause"] = Data("injected transient datamodel failure", Data::VERBATIM);
			e.eventType = Event::PLATFORM;
			throw e;
		}
	}
	void leftElement() { failedElem.clear(); failedDepth = 0; }

	virtual std::shared_ptr<DataModelImpl> create(DataModelCallbacks* callbacks) { return real->create(callbacks); }
	virtual void setup() {}
	virtual std::list<std::string> getNames() { return real->getNames(); }
	virtual bool isValidSyntax(const std::string& expr) { return real->isValidSyntax(expr); }
	virtual bool isLegalDataValue(const std::string& expr) { return real->isLegalDataValue(expr); }
	virtual void setEvent(const Event& event) { real->setEvent(event); }
	virtual uint32_t getLength(const std::string& expr) { maybeFail("getLength", expr); return real->getLength(expr); }
	virtual void setForeach(const std::string& item, const std::string& array, const std::string& index, uint32_t iteration) {
		maybeFail("setForeach", array);
		real->setForeach(item, array, index, iteration);
	}
	virtual Data getAsData(const std::string& content) { return real->getAsData(content); }
	virtual Data evalAsData(const std::string& content) { maybeFail("evalAsData", content); return real->evalAsData(content); }
	virtual void eval(const std::string& content) { maybeFail("eval", content); real->eval(content); }
	virtual bool evalAsBool(const std::string& expr) { maybeFail("evalAsBool", expr); return real->evalAsBool(expr); }
	virtual bool isDeclared(const std::string& expr) { return real->isDeclared(expr); }
	virtual void assign(const std::string& location, const Data& data, const std::map<std::string, std::string>& attr) {
		maybeFail("assign", location);
		real->assign(location, data, attr);
	}
	virtual void init(const std::string& location, const Data& data, const std::map<std::string, std::string>& attr) {
		real->init(location, data, attr);
	}
};

static FaultyDataModel* g_lastFaulty = nullptr;

void registerFaultyDataModels() {}

uscxml::DataModel makeFaultyDataModel(uscxml::Interpreter& interp, const js::Value& faults, const std::string& tag) {
	InterpreterImpl* impl = interp.getImpl().get();
	XERCESC_NS::DOMElement* scxml = impl->getDocument()->getDocumentElement();
	std::string name = HAS_ATTR(scxml, X("datamodel")) ? ATTR(scxml, X("datamodel")) : "null";
	std::shared_ptr<DataModelImpl> real = Factory::getInstance()->createDataModel(name, impl);
	FaultyDataModel* f = new FaultyDataModel(real, tag, (uint64_t)faults["seed"].i64(1), faults["p"].num(0.05));
	g_lastFaulty = f;
	return uscxml::DataModel(std::shared_ptr<DataModelImpl>(f));
}

void contentLeft() {
	if (g_lastFaulty && g_lastFaulty->failedDepth > g_contentStack.size()) g_lastFaulty->leftElement();
}

void installFaultPlan(uscxml::Interpreter&, const js::Value&) {}
void resetFaultStats() { g_faultsInjected = 0; g_dmCalls = 0; g_contentStack.clear(); g_lastFaulty = nullptr; }
std::string faultStatsJSON() {
	return "\"dm_faults\":" + std::to_string(g_faultsInjected) + ",\"dm_calls_in_content\":" + std::to_string(g_dmCalls);
}
}
