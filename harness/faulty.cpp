#include "faulty.h"
namespace h {
void registerFaultyDataModels() {}
void installFaultPlan(uscxml::Interpreter&, const js::Value&) {}
void resetFaultStats() {}
std::string faultStatsJSON() { return ""; }
}
