// Plan executor (DESIGN.md 4.2).  A plan is explicit data:
//   { "id":k, "seed":n, "sched":{...}, "charts":{name:xml}, "actors":{name:[op,...]}, ... }
// The "main" actor runs on task 0; other actors are started with {"op":"spawn"}.
#include "recorder.h"

#include <fstream>
#include <unistd.h>
#include <sstream>
#include <thread>

#include "uscxml/interpreter/LargeMicroStep.h"
#include "uscxml/interpreter/FastMicroStep.h"
#include "uscxml/util/URL.h"
#include "faulty.h"
#include "echo.h"
#include "transform_ops.h"

extern "C" void usim_entropy_seed(uint64_t seed);
namespace usim { namespace ev {
extern long n_add, n_del, n_free, n_fired, n_loop, n_break, n_break_forgotten, n_del_blocked, n_del_while_running;
void reset_counters();
void collect();
} }

namespace h {

std::map<std::string, std::string> g_sessTag;
int g_childCount = 0;
int g_queueCount = 0;
std::map<const void*, QueueInfo>* g_queues = nullptr;
void (*g_trackContent)(bool enter, const std::string& elem) = nullptr;

static const char* stateName(InterpreterState s) {
	switch (s) {
	case USCXML_FINISHED: return "FINISHED";
	case USCXML_UNDEF: return "UNDEF";
	case USCXML_IDLE: return "IDLE";
	case USCXML_INITIALIZED: return "INITIALIZED";
	case USCXML_INSTANTIATED: return "INSTANTIATED";
	case USCXML_MICROSTEPPED: return "MICROSTEPPED";
	case USCXML_MACROSTEPPED: return "MACROSTEPPED";
	case USCXML_CANCELLED: return "CANCELLED";
	}
	return "?";
}

struct Slot {
	Interpreter interp;
	std::string tag;
	std::shared_ptr<RecLogger> logger;
	bool recMicro = false;
	int steps = 0;
	bool lastWasIdle = false;
	std::string lastCfg;
	long idleSkipped = 0;
};

/* C09: a BasicDelayedEventQueue driven directly through the public DelayedEventQueue interface ("dq" op);
 * deliveries are recorded with the simulated time at which the timer thread handed them over. */
struct DirectQueue : public DelayedEventQueueCallbacks {
	std::string tag;
	std::shared_ptr<DelayedEventQueueImpl> impl;
	virtual void eventReady(Event& event, const std::string& eventUUID) {
		tr::Rec(tag, "dqfire").str(event.name).str(eventUUID);
	}
};

struct Run {
	const js::Value* plan = nullptr;
	std::map<long long, DirectQueue*> dqs;
	std::vector<Slot> slots;
	RecMonitor monitor;
	std::map<std::string, std::thread*> threads;
	std::map<std::string, bool> flags;
	std::map<std::string, std::string> snaps;
	long opsDone = 0;
	long stepsLeft = -1;   // plan-wide budget of microsteps for the "run" ops (-1: none): charts that loop without events must not make a run arbitrarily long
	long exceptions = 0;
	bool ended = false;
};
static Run* R = nullptr;
static uint64_t g_runId = 0;

static std::string configOf(Interpreter& interp) {
	std::string out;
	std::list<XERCESC_NS::DOMElement*> cfg = interp.getConfiguration();
	for (auto e : cfg) {
		if (out.size()) out += ' ';
		if (HAS_ATTR(e, kXMLCharId)) out += ATTR(e, kXMLCharId);
		else out += "#" + DOMUtils::xPathForNode(e);
	}
	return out;
}

// remembered history as state ids (reads the engines' protected state; harness TUs are built with -fno-access-control)
static std::string historyOf(Interpreter& interp) {
	std::string out;
	MicroStepImpl* ms = interp.getImpl()->_microStepper.getImpl().get();
	if (LargeMicroStep* l = dynamic_cast<LargeMicroStep*>(ms)) {
		for (auto st : l->_history) {
			if (out.size()) out += ' ';
			out += HAS_ATTR(st->element, kXMLCharId) ? ATTR(st->element, kXMLCharId) : "#" + DOMUtils::xPathForNode(st->element);
		}
	} else if (FastMicroStep* f = dynamic_cast<FastMicroStep*>(ms)) {
		for (size_t i = 0; i < f->_states.size(); i++) {
			if (i < f->_history.size() && f->_history[i]) {
				if (out.size()) out += ' ';
				XERCESC_NS::DOMElement* e = f->_states[i]->element;
				out += HAS_ATTR(e, kXMLCharId) ? ATTR(e, kXMLCharId) : "#" + DOMUtils::xPathForNode(e);
			}
		}
	} else {
		out = "?";
	}
	return out;
}

static void recordException(const std::string& actor, const char* where) {
	R->exceptions++;
	try {
		throw;
	} catch (const ErrorEvent& e) {
		std::string cause;
		if (e.data.hasKey("cause")) cause = e.data["cause"].atom;
		if (e.data.hasKey("msg")) cause = e.data["msg"].atom;
		tr::Rec(actor, "exc").str(where).str("ErrorEvent").str(e.name).str(cause);
	} catch (const Event& e) {
		tr::Rec(actor, "exc").str(where).str("Event").str(e.name).str("");
	} catch (const std::exception& e) {
		tr::Rec(actor, "exc").str(where).str("std::exception").str(e.what()).str("");
	} catch (...) {
		tr::Rec(actor, "exc").str(where).str("unknown").str("").str("");
	}
}

static size_t blockOf(const js::Value& op) {
	int64_t b = op["block"].i64(0);
	return b < 0 ? std::numeric_limits<size_t>::max() : (size_t)b;
}

static void doStep(const std::string& actor, Slot& s, Interpreter& interp, size_t block, std::string& resOut) {
	bool finite = block != std::numeric_limits<size_t>::max();
	if (finite) usim::api_enter("step");
	InterpreterState st = USCXML_UNDEF;
	try {
		st = interp.step(block);
	} catch (...) {
		if (finite) usim::api_leave();
		recordException(actor, "step");
		resOut = "EXC";
		tr::Rec(s.tag, "st").str("EXC").str("");
		return;
	}
	if (finite) usim::api_leave();
	s.steps++;
	resOut = stateName(st);
	std::string cfg;
	if (st != USCXML_INITIALIZED) cfg = configOf(interp);
	// a run of identical IDLE results (spinning step(0)) is recorded once
	if (st == USCXML_IDLE && s.lastWasIdle && cfg == s.lastCfg) {
		s.idleSkipped++;
		return;
	}
	s.lastWasIdle = (st == USCXML_IDLE);
	s.lastCfg = cfg;
	tr::Rec r(s.tag, "st");
	r.str(resOut).str(cfg);
	if (s.recMicro && st != USCXML_INITIALIZED) {
		try {
			r.str(historyOf(interp));
		} catch (...) {
			r.str("!");
		}
	}
}

static void runActor(const std::string actor);

static void actorThread(std::string actor) {
	usim::name_task(actor.c_str());
	runActor(actor);
}

// A document with src= starts uSCXML's process-wide URL fetcher thread, which lives until the process ends (its own stop()
// cannot wake it).  A run is one "process" of the simulation: the harness ends that thread itself so that it is not
// mistaken for a leaked task of the subject.
static void stopUrlFetcher() {
	URLFetcher* f = URLFetcher::_instance;
	if (!f || !f->_isStarted || !f->_thread) return;
	{
		std::lock_guard<std::recursive_mutex> lock(f->_mutex);
		f->_isStarted = false;
		f->_condVar.notify_all();
	}
	usim::api_enter("join-url-fetcher");
	f->_thread->join();
	usim::api_leave();
	delete f->_thread;
	f->_thread = NULL;
	// the thread is only ever started by the constructor: the next run gets a fresh instance
	URLFetcher::_instance = NULL;
	delete f;
}

static void createInterp(const std::string& actor, const js::Value& op) {
	size_t i = (size_t)op["i"].i64();
	if (R->slots.size() <= i) { tr::Rec(actor, "exc").str("create").str("harness").str("slot index too large").str(""); return; }
	Slot& s = R->slots[i];
	s.tag = "i" + std::to_string(i);
	std::string chart = (*R->plan)["charts"][op["chart"].str("main")].str();
	std::string base = op["base"].str("/verif/sim/" + op["chart"].str("main") + ".scxml");
	s.recMicro = op["rec_micro"].boolean(false);
	usim::api_enter("create");
	try {
		Interpreter interp = Interpreter::fromXML(chart, base);
		g_sessTag[interp.getImpl()->getSessionId()] = s.tag;
		ActionLanguage al;
		InterpreterImpl* impl = interp.getImpl().get();
		std::string engine = op["engine"].str("default");
		if (engine != "default") al.microStepper = Factory::getInstance()->createMicroStepper(engine, impl);
		s.logger = std::shared_ptr<RecLogger>(new RecLogger(s.tag));
		al.logger = Logger(s.logger);
		if (op["rec_queues"].boolean(true)) {
			al.externalQueue = EventQueue(std::shared_ptr<EventQueueImpl>(new RecQueue("ext")));
			al.internalQueue = EventQueue(std::shared_ptr<EventQueueImpl>(new RecQueue("int")));
			if (op["hold_delayed"].boolean(false))
				al.delayQueue = DelayedEventQueue(std::shared_ptr<DelayedEventQueueImpl>(new HoldDelayQueue(impl)));
			else
				al.delayQueue = DelayedEventQueue(std::shared_ptr<DelayedEventQueueImpl>(new RecDelayQueue(impl)));
		}
		if (op.has("dm_faults")) {
			al.dataModel = makeFaultyDataModel(interp, op["dm_faults"], s.tag);
			g_trackContent = [](bool enter, const std::string& elem) {
				if (enter) g_contentStack.push_back(elem);
				else {
					if (!g_contentStack.empty()) g_contentStack.pop_back();
					contentLeft();
				}
			};
		}
		interp.setActionLanguage(al);
		if (op["monitor"].boolean(true)) interp.addMonitor(&R->monitor);
		s.interp = interp;
		std::string ext, in, dl;
		if (op["rec_queues"].boolean(true)) {
			ext = queueIdOf(al.externalQueue.getImplBase().get());
			in = queueIdOf(al.internalQueue.getImplBase().get());
			dl = queueIdOf(al.delayQueue.getImplDelayed().get());
		}
		tr::Rec(s.tag, "bind").str("").str(op["chart"].str("main")).str(ext).str(in).str(dl);
	} catch (...) {
		recordException(actor, "create");
	}
	usim::api_leave();
}

static void execOp(const std::string& actor, size_t idx, const js::Value& op) {
	std::string name = op["op"].str();
	size_t i = (size_t)op["i"].i64(0);
	{ tr::Rec(actor, "op<").num((long long)idx).str(name).num((long long)i); }
	// the history up to here survives whatever kills the process inside the op (sanitizer aborts do not run our handlers)
	tr::flush_fd(1);
	std::string result;
	Interpreter interp; // our own handle for the duration of the call
	bool needsInterp = name == "step" || name == "run" || name == "follow" || name == "recv" || name == "cancel" || name == "reset" ||
	                   name == "serialize" || name == "deserialize" || name == "validate" || name == "transform" ||
	                   name == "state" || name == "eval";
	if (needsInterp) {
		if (i < R->slots.size()) interp = R->slots[i].interp;
		if (!interp) {
			tr::Rec(actor, "op>").num((long long)idx).str(name).str("NOINTERP");
			return;
		}
	}
	try {
		if (name == "create") {
			createInterp(actor, op);
		} else if (name == "step") {
			doStep(actor, R->slots[i], interp, blockOf(op), result);
		} else if (name == "run") {
			int64_t maxSteps = op["max"].i64(200);
			size_t block = blockOf(op);
			const js::Value& until = op["until"];
			bool snap = op["snap"].boolean(false);
			for (int64_t k = 0; k < maxSteps; k++) {
				if (R->stepsLeft == 0) {
					result = "BUDGET";
					break;
				}
				if (R->stepsLeft > 0) R->stepsLeft--;
				doStep(actor, R->slots[i], interp, block, result);
				if (snap && (result == "MACROSTEPPED" || result == "IDLE")) {
					// snapshot at every stable point (C14): the text goes into the history
					try {
						std::string text = interp.serialize();
						tr::Rec(R->slots[i].tag, "snap").num((long long)idx).num((long long)k).str(text);
					} catch (...) {
						recordException(actor, "serialize");
					}
				}
				if (block == 0 && result == "IDLE") {
					// a polling loop takes time: 25 simulated microseconds per empty poll, otherwise the
					// clock could never advance while a step(0) loop spins
					uint64_t until = usim::now_ns() + 25000ull;
					std::function<bool()> ready = [until]() { return usim::now_ns() >= until; };
					std::function<uint64_t()> dl = [until]() { return until; };
					usim::block_until(ready, dl, "poll-pause", nullptr);
				}
				bool stop = (result == "FINISHED" || result == "EXC");
				for (size_t u = 0; u < until.size(); u++)
					if (until[u].str() == result) stop = true;
				if (stop) break;
			}
		} else if (name == "follow") {
			// C06: run to rest, then release the held delayed event that the model dequeued next; repeat
			const js::Value& order = op["order"];
			int64_t maxSteps = op["max"].i64(400);
			InterpreterImpl* impl = interp.getImpl().get();
			RecQueue* extq = dynamic_cast<RecQueue*>(impl->_externalQueue.getImplBase().get());
			HoldDelayQueue* hold = dynamic_cast<HoldDelayQueue*>(impl->_delayQueue.getImplDelayed().get());
			result = "NOHOLD";
			if (extq && hold) {
				int64_t steps = 0;
				for (;;) {
					bool rest = false;
					while (steps++ < maxSteps) {
						doStep(actor, R->slots[i], interp, 0, result);
						if (result == "IDLE" || result == "FINISHED" || result == "EXC") { rest = true; break; }
					}
					if (!rest) { result = "CAP"; break; }
					if (result != "IDLE") break;
					size_t k = (size_t)extq->dequeued;
					if (k >= order.size()) { result = "IDLE"; break; }
					if (!hold->release(order[k].str())) {
						tr::Rec(actor, "follow-miss").num((long long)k).str(order[k].str());
						result = "MISS";
						break;
					}
				}
			}
		} else if (name == "recv") {
			Event e(op["name"].str("e"), Event::EXTERNAL);
			if (op.has("data")) e.data = Data(op["data"].str(), Data::VERBATIM);
			if (op.has("json")) e.data = Data::fromJSON(op["json"].str());
			if (op.has("params")) {
				// [[name, json value], ...]: several names, and a name more than once
				const js::Value& ps = op["params"];
				for (size_t n = 0; n < ps.size(); n++)
					e.params.insert(std::make_pair(ps[n][(size_t)0].str(), Data::fromJSON(ps[n][(size_t)1].str())));
			}
			if (op.has("namelist")) {
				const js::Value& nl = op["namelist"];
				for (size_t n = 0; n < nl.size(); n++)
					e.namelist[nl[n][(size_t)0].str()] = Data::fromJSON(nl[n][(size_t)1].str());
			}
			usim::api_enter("receive");
			interp.receive(e);
			usim::api_leave();
		} else if (name == "cancel") {
			usim::api_enter("cancel");
			interp.cancel();
			usim::api_leave();
		} else if (name == "reset") {
			usim::api_enter("reset");
			interp.reset();
			usim::api_leave();
		} else if (name == "destroy") {
			if (i < R->slots.size()) {
				usim::api_enter("destroy");
				{
					// empty the shared slot first, then let our private handle die: no other
					// actor can copy a handle to an interpreter that is already being destroyed
					Interpreter victim = R->slots[i].interp;
					R->slots[i].interp = Interpreter();
				}
				usim::api_leave();
			}
		} else if (name == "state") {
			result = stateName(interp.getState());
		} else if (name == "serialize") {
			usim::api_enter("serialize");
			std::string snap = interp.serialize();
			usim::api_leave();
			R->snaps[op["slot"].str("s")] = snap;
			tr::Rec(R->slots[i].tag, "snap").str(op["slot"].str("s")).str(snap);
		} else if (name == "deserialize") {
			std::string text = op.has("text") ? op["text"].str() : R->snaps[op["slot"].str("s")];
			usim::api_enter("deserialize");
			interp.deserialize(text);
			usim::api_leave();
			result = "OK";
		} else if (name == "validate") {
			std::list<InterpreterIssue> issues = interp.validate();
			int fatal = 0;
			for (auto& is : issues) {
				if (is.severity == InterpreterIssue::USCXML_ISSUE_FATAL) fatal++;
				tr::Rec(R->slots[i].tag, "vis").num((int)is.severity).str(is.message).str(is.xPath);
			}
			result = fatal ? "FATAL" : "OK";
		} else if (name == "eval") {
			Data d = interp.getImpl()->_dataModel.evalAsData(op["expr"].str());
			result = d.asJSON();
		} else if (name == "transform") {
			result = doTransform(interp, op);
		} else if (name == "dq") {
			std::string what = op["do"].str();
			long long q = op["q"].i64(0);
			if (what == "new") {
				if (!R->dqs.count(q)) {
					DirectQueue* d = new DirectQueue();
					d->tag = "dq" + std::to_string(q);
					usim::api_enter("dq-new");
					d->impl = std::shared_ptr<DelayedEventQueueImpl>(new BasicDelayedEventQueue(d));
					usim::api_leave();
					R->dqs[q] = d;
				}
			} else if (R->dqs.count(q) && R->dqs[q]->impl) {
				DirectQueue* d = R->dqs[q];
				std::string uuid = op["uuid"].str();
				if (what == "enq") {
					Event e(op["name"].str("e"), Event::EXTERNAL);
					e.uuid = uuid;
					{ tr::Rec(d->tag, "dqenq<").str(e.name).str(uuid).num(op["delay"].i64(0)); }
					usim::api_enter("dq-enq");
					d->impl->enqueueDelayed(e, (size_t)op["delay"].i64(0), uuid);
					usim::api_leave();
					{ tr::Rec(d->tag, "dqenq>").str(e.name).str(uuid); }
				} else if (what == "cancel") {
					{ tr::Rec(d->tag, "dqcnl<").str(uuid); }
					usim::api_enter("dq-cancel");
					d->impl->cancelDelayed(uuid);
					usim::api_leave();
					{ tr::Rec(d->tag, "dqcnl>").str(uuid); }
				} else if (what == "cancelall") {
					{ tr::Rec(d->tag, "dqcna<"); }
					usim::api_enter("dq-cancelall");
					d->impl->cancelAllDelayed();
					usim::api_leave();
					{ tr::Rec(d->tag, "dqcna>"); }
				} else if (what == "del") {
					{ tr::Rec(d->tag, "dqdel<"); }
					usim::api_enter("dq-del");
					d->impl.reset();
					usim::api_leave();
					{ tr::Rec(d->tag, "dqdel>"); }
				} else {
					result = "UNKNOWN-OP";
				}
			} else {
				result = "NOQUEUE";
			}
		} else if (name == "sleep_us") {
			uint64_t until = usim::now_ns() + (uint64_t)op["us"].i64(0) * 1000ull;
			std::function<bool()> ready = [until]() { return usim::now_ns() >= until; };
			std::function<uint64_t()> dl = [until]() { return until; };
			usim::block_until(ready, dl, "sleep", nullptr);
		} else if (name == "sleep") {
			usim::sleep_ms((uint64_t)op["ms"].i64(1));
		} else if (name == "drain") {
			// bounded liveness: wait until interpreter i made n more step() calls, or nothing else can run
			size_t ii = (size_t)op["i"].i64(0);
			int target = R->slots[ii].steps + (int)op["n"].i64(200);
			std::function<bool()> ready = [ii, target]() { return R->slots[ii].steps >= target || usim::others_quiescent(10000000000ull); };
			// re-evaluated every simulated millisecond so that timers and timed waits of the others can elapse
			std::function<uint64_t()> dl = []() { return usim::now_ns() + 1000000ull; };
			usim::block_until(ready, dl, "drain", nullptr);
		} else if (name == "mark") {
			tr::Rec(actor, "mark").str(op["name"].str());
		} else if (name == "settle") {
			usim::settle();
		} else if (name == "yield") {
			usim::yield("op-yield");
		} else if (name == "spawn") {
			std::string a = op["actor"].str();
			if (!R->threads.count(a)) R->threads[a] = new std::thread(actorThread, a);
		} else if (name == "join") {
			std::string a = op["actor"].str();
			auto it = R->threads.find(a);
			if (it != R->threads.end() && it->second) {
				usim::api_enter("join-actor");
				it->second->join();
				usim::api_leave();
				delete it->second;
				it->second = nullptr;
			}
		} else if (name == "set") {
			R->flags[op["flag"].str()] = true;
			usim::yield("flag-set");
		} else if (name == "wait") {
			std::string f = op["flag"].str();
			std::function<bool()> ready = [f]() { return R->flags.count(f) && R->flags[f]; };
			std::function<uint64_t()> dl = []() { return UINT64_MAX; };
			usim::block_until(ready, dl, "flag", nullptr);
		} else if (name == "skew") {
			usim::skew_wall(op["ms"].i64(0) * 1000000ll);
		} else if (name == "heapwarm") {
			heapWarm((uint64_t)op["seed"].i64(1), (int)op["n"].i64(100));
		} else {
			result = "UNKNOWN-OP";
		}
	} catch (...) {
		usim::api_leave();
		recordException(actor, name.c_str());
		result = "EXC";
	}
	R->opsDone++;
	{ tr::Rec(actor, "op>").num((long long)idx).str(name).str(result); }
}

static void runActor(const std::string actor) {
	const js::Value& ops = (*R->plan)["actors"][actor];
	for (size_t k = 0; k < ops.size(); k++) execOp(actor, k, ops[k]);
}

void emitEnd(bool verdict) {
	if (!R || R->ended) return;
	R->ended = true;
	const usim::Stats& st = usim::stats();
	std::ostringstream os;
	os << "[\"end\",{\"id\":" << g_runId << ",\"verdict\":" << (verdict ? "true" : "false")
	   << ",\"decisions\":" << st.decisions << ",\"switches\":" << st.switches << ",\"time_jumps\":" << st.time_jumps
	   << ",\"adv_time\":" << st.adv_time << ",\"spurious\":" << st.spurious << ",\"stalls\":" << st.stalls
	   << ",\"skews\":" << st.clock_skews << ",\"tasks\":" << st.tasks << ",\"sim_ms\":" << st.end_ns / 1000000
	   << ",\"replay_diverged\":" << st.replay_diverged << ",\"sched_hash\":\"" << std::hex << st.sched_hash << std::dec << "\""
	   << ",\"ops\":" << R->opsDone << ",\"exceptions\":" << R->exceptions
	   << ",\"ev_add\":" << usim::ev::n_add << ",\"ev_del\":" << usim::ev::n_del << ",\"ev_free\":" << usim::ev::n_free
	   << ",\"ev_fired\":" << usim::ev::n_fired << ",\"ev_loop\":" << usim::ev::n_loop << ",\"ev_break\":" << usim::ev::n_break
	   << ",\"ev_break_forgotten\":" << usim::ev::n_break_forgotten << ",\"ev_del_blocked\":" << usim::ev::n_del_blocked
	   << ",\"ev_del_while_running\":" << usim::ev::n_del_while_running;
	std::string extra = faultStatsJSON();
	if (extra.size()) os << "," << extra;
	os << ",\"trace_hash\":\"" << std::hex << tr::hash << std::dec << "\"";
	if ((*R->plan)["want_decisions"].boolean(false)) {
		os << ",\"decision_log\":[";
		const std::vector<int>& d = usim::decision_log();
		for (size_t k = 0; k < d.size(); k++) os << (k ? "," : "") << d[k];
		os << "]";
	}
	os << "}]";
	// the end line itself is not part of the hash
	tr::buf += os.str();
	tr::buf += '\n';
}

void warmup() {
	// Touch every function-local static and singleton before the first
	// simulated run so that no task can block inside __cxa_guard_acquire.
	g_queues = new std::map<const void*, QueueInfo>();
	usim_entropy_seed(12345);
	Factory::getInstance();
	registerFaultyDataModels();
	registerEchoInvoker();
	LoggerImpl::_defaultLogger = std::shared_ptr<LoggerImpl>(new RecLogger("default"));
	const char* dms[] = {"null", "lua", "promela"};
	for (const char* dm : dms) {
		usim::Config cfg;
		cfg.policy = usim::POL_NONPREEMPT;
		usim::begin(cfg);
		{
			std::string xml = std::string("<scxml xmlns=\"http://www.w3.org/2005/07/scxml\" version=\"1.0\" datamodel=\"") + dm +
			                  "\" initial=\"a\"><state id=\"a\"><onentry><raise event=\"x\"/><send event=\"y\" delay=\"1ms\"/><log expr=\"1\" label=\"w\"/></onentry><transition event=\"y\" target=\"b\"/></state><final id=\"b\"/></scxml>";
			Interpreter ip = Interpreter::fromXML(xml, "/verif/sim/warmup.scxml");
			ip.validate();
			while (ip.step(100) != USCXML_FINISHED) {}
		}
		usim::end();
	}
	usim::ev::collect();
	tr::buf.clear();
	tr::hash = 1469598103934665603ull;
}

void runPlan(const js::Value& plan) {
	Run run;
	run.slots.resize(16);
	R = &run;
	run.plan = &plan;
	run.stepsLeft = plan["step_budget"].i64(-1);
	g_runId = (uint64_t)plan["id"].i64(0);
	g_sessTag.clear();
	g_childCount = 0;
	g_queueCount = 0;
	tr::hash = 1469598103934665603ull;
	usim::ev::reset_counters();
	resetFaultStats();
	g_trackContent = nullptr;

	const js::Value& sc = plan["sched"];
	usim::Config cfg;
	cfg.seed = (uint64_t)sc["seed"].i64(plan["seed"].i64(1));
	std::string pol = sc["policy"].str("random");
	cfg.policy = pol == "sticky" ? usim::POL_STICKY : pol == "pct" ? usim::POL_PCT : pol == "nonpreempt" ? usim::POL_NONPREEMPT : usim::POL_RANDOM;
	cfg.sticky_p = sc["sticky_p"].num(0.8);
	cfg.pct_d = (int)sc["pct_d"].i64(2);
	cfg.pct_horizon = (int)sc["pct_horizon"].i64(400);
	cfg.time_adv_p = sc["time_adv_p"].num(0);
	cfg.spurious_p = sc["spurious_p"].num(0);
	cfg.stall_p = sc["stall_p"].num(0);
	cfg.stall_len = (int)sc["stall_len"].i64(20);
	cfg.max_decisions = sc["max_decisions"].i64(200000);
	if (sc.has("decisions"))
		for (size_t k = 0; k < sc["decisions"].size(); k++) cfg.decisions.push_back((int)sc["decisions"][k].i64());
	usim_entropy_seed((uint64_t)plan["entropy_seed"].i64(plan["seed"].i64(1)));
	if (plan.has("env")) {
		const js::Value& env = plan["env"];
		for (auto& kv : env.o) setenv(kv.first.c_str(), kv.second.str().c_str(), 1);
	}

	printf("[\"start\",%llu]\n", (unsigned long long)g_runId);
	fflush(stdout);
	alarm((unsigned)plan["wall_limit_s"].i64(60));

	usim::begin(cfg);
	usim::name_task("main");
	runActor("main");
	// implicit epilogue: join every actor, drop every handle
	for (auto& kv : run.threads) {
		if (kv.second) {
			usim::api_enter("join-actor");
			kv.second->join();
			usim::api_leave();
			delete kv.second;
			kv.second = nullptr;
		}
	}
	for (auto& kv : run.dqs) {
		if (kv.second && kv.second->impl) {
			{ tr::Rec(kv.second->tag, "dqdel<"); }
			usim::api_enter("dq-del");
			try {
				kv.second->impl.reset();
			} catch (...) {
			}
			usim::api_leave();
			{ tr::Rec(kv.second->tag, "dqdel>"); }
		}
		delete kv.second;
		kv.second = nullptr;
	}
	for (size_t i = 0; i < run.slots.size(); i++) {
		if (run.slots[i].interp) {
			{ tr::Rec("main", "op<").num(-1).str("destroy").num((long long)i); }
			usim::api_enter("destroy");
			try {
				Interpreter victim = run.slots[i].interp;
				run.slots[i].interp = Interpreter();
			} catch (...) {
				recordException("main", "destroy");
			}
			usim::api_leave();
			{ tr::Rec("main", "op>").num(-1).str("destroy").str(""); }
		}
	}
	stopUrlFetcher();
	usim::end();
	alarm(0);
	emitEnd(false);
	R = nullptr;
	usim::ev::collect();
}

} // namespace h
