// Recorder: monitor, logger and recording queues (DESIGN.md section 5).
#pragma once
#include "uscxml/config.h"
#include "uscxml/Interpreter.h"
#include "uscxml/interpreter/InterpreterImpl.h"
#include "uscxml/interpreter/InterpreterMonitor.h"
#include "uscxml/interpreter/BasicEventQueue.h"
#include "uscxml/interpreter/BasicDelayedEventQueue.h"
#include "uscxml/interpreter/LoggingImpl.h"
#include "uscxml/interpreter/MicroStepImpl.h"
#include "uscxml/debug/InterpreterIssue.h"
#include "uscxml/plugins/Factory.h"
#include "uscxml/util/DOM.h"
#include <map>
#include <memory>
#include <string>
#include "json.h"
#include "trace.h"
#include "../sim/sim.h"

// ------------------------------------------------------------------------------
// recorder
// ------------------------------------------------------------------------------
namespace h {
using namespace uscxml;

void warmup();
void runPlan(const js::Value& plan);
void emitEnd(bool verdict);

extern std::map<std::string, std::string> g_sessTag; // sessionId -> tag (string keys: deterministic)
extern int g_childCount;
extern int g_queueCount;

struct QueueInfo {
	std::string id;
	std::string role;
};
extern std::map<const void*, QueueInfo>* g_queues; // by EventQueueImpl*; lookup only, never iterated

inline std::string queueIdOf(const void* p) {
	if (!g_queues) return "";
	auto it = g_queues->find(p);
	return it == g_queues->end() ? "" : it->second.id;
}

inline std::string eventJSON(const Event& e) {
	std::string s = "{";
	s += "\"name\":" + js::esc(e.name);
	s += ",\"type\":" + std::to_string((int)e.eventType);
	if (e.sendid.size() && !e.hideSendId) s += ",\"sendid\":" + js::esc(e.sendid);
	if (e.invokeid.size()) s += ",\"invokeid\":" + js::esc(e.invokeid);
	if (e.origin.size()) s += ",\"origin\":" + js::esc(e.origin);
	if (!e.data.empty()) s += ",\"data\":" + js::esc(e.data.asJSON());
	if (e.params.size()) {
		std::string p;
		for (auto& kv : e.params) p += kv.first + "=" + kv.second.asJSON() + ";";
		s += ",\"params\":" + js::esc(p);
	}
	if (e.namelist.size()) {
		std::string p;
		for (auto& kv : e.namelist) p += kv.first + "=" + kv.second.asJSON() + ";";
		s += ",\"namelist\":" + js::esc(p);
	}
	s += "}";
	return s;
}

std::string sessTag(const std::string& sid); // fwd

inline std::string elemDesc(const XERCESC_NS::DOMElement* e) {
	if (!e) return "";
	return DOMUtils::xPathForNode(e);
}

// set by the fault-injecting datamodel: told which element of executable content is running
extern void (*g_trackContent)(bool enter, const std::string& elem);

class RecQueue : public BasicEventQueue {
public:
	std::string qid, role;
	long dequeued = 0;   // events handed out so far
	RecQueue(const std::string& r) : role(r) {
		qid = "q" + std::to_string(g_queueCount++);
		(*g_queues)[(EventQueueImpl*)this] = QueueInfo{qid, role};
	}
	virtual ~RecQueue() {
		if (g_queues) g_queues->erase((EventQueueImpl*)this);
	}
	virtual std::shared_ptr<EventQueueImpl> create() {
		return std::shared_ptr<EventQueueImpl>(new RecQueue(role));
	}
	virtual Event dequeue(size_t blockMs) {
		// non-blocking polls that find nothing are not recorded (a spinning step(0) loop
		// would otherwise dominate the history); everything else is bracketed
		if (blockMs == 0) {
			Event e = BasicEventQueue::dequeue(blockMs);
			if (e.name.size() || e.uuid.size()) {
				dequeued++;
				{ tr::Rec(qid, "deq<").str(role).num(0); }
				{ tr::Rec(qid, "deq>").str(role).rawjson(eventJSON(e)).str(e.uuid); }
			}
			return e;
		}
		{ tr::Rec(qid, "deq<").str(role).num(blockMs == std::numeric_limits<size_t>::max() ? -1 : (long long)blockMs); }
		Event e = BasicEventQueue::dequeue(blockMs);
		if (e.name.size()) dequeued++;
		{ tr::Rec(qid, "deq>").str(role).rawjson(eventJSON(e)).str(e.uuid); }
		return e;
	}
	virtual void enqueue(const Event& event) {
		{ tr::Rec(qid, "enq<").str(role).rawjson(eventJSON(event)).str(event.uuid); }
		BasicEventQueue::enqueue(event);
		{ tr::Rec(qid, "enq>").str(role).str(event.name).str(event.uuid); }
	}
	size_t size() { return _queue.size(); }
};

class RecDelayQueue : public BasicDelayedEventQueue {
public:
	std::string qid;
	RecDelayQueue(DelayedEventQueueCallbacks* cb) : BasicDelayedEventQueue(cb) {
		qid = "q" + std::to_string(g_queueCount++);
		(*g_queues)[(DelayedEventQueueImpl*)this] = QueueInfo{qid, "delay"};
	}
	virtual ~RecDelayQueue() {
		if (g_queues) g_queues->erase((DelayedEventQueueImpl*)this);
	}
	virtual std::shared_ptr<DelayedEventQueueImpl> create(DelayedEventQueueCallbacks* cb) {
		return std::shared_ptr<DelayedEventQueueImpl>(new RecDelayQueue(cb));
	}
	virtual void enqueueDelayed(const Event& event, size_t delayMs, const std::string& uuid) {
		{ tr::Rec(qid, "dly<").rawjson(eventJSON(event)).num((long long)delayMs).str(uuid); }
		BasicDelayedEventQueue::enqueueDelayed(event, delayMs, uuid);
		{ tr::Rec(qid, "dly>").str(event.name).str(uuid); }
	}
	virtual void cancelDelayed(const std::string& uuid) {
		{ tr::Rec(qid, "cnl<").str(uuid); }
		BasicDelayedEventQueue::cancelDelayed(uuid);
		{ tr::Rec(qid, "cnl>").str(uuid); }
	}
	virtual void cancelAllDelayed() {
		{ tr::Rec(qid, "cna<"); }
		BasicDelayedEventQueue::cancelAllDelayed();
		{ tr::Rec(qid, "cna>"); }
	}
	size_t pending() { return _callbackData.size(); }
};

/* C06: a delayed-event queue that never fires on its own.  The harness releases held events in the order an
 * execution of the emitted Promela model dequeued them ("for the same order of external events"). */
class HoldDelayQueue : public DelayedEventQueueImpl {
public:
	struct Held { Event event; std::string uuid; size_t delayMs; };
	std::string qid;
	DelayedEventQueueCallbacks* _cb;
	std::list<Held> held;
	HoldDelayQueue(DelayedEventQueueCallbacks* cb) : _cb(cb) {
		qid = "q" + std::to_string(g_queueCount++);
		(*g_queues)[(DelayedEventQueueImpl*)this] = QueueInfo{qid, "delay"};
	}
	virtual ~HoldDelayQueue() {
		if (g_queues) g_queues->erase((DelayedEventQueueImpl*)this);
	}
	virtual std::shared_ptr<DelayedEventQueueImpl> create(DelayedEventQueueCallbacks* cb) {
		return std::shared_ptr<DelayedEventQueueImpl>(new HoldDelayQueue(cb));
	}
	virtual void enqueueDelayed(const Event& event, size_t delayMs, const std::string& uuid) {
		{ tr::Rec(qid, "dly<").rawjson(eventJSON(event)).num((long long)delayMs).str(uuid); }
		held.push_back(Held{event, uuid, delayMs});
		{ tr::Rec(qid, "dly>").str(event.name).str(uuid); }
	}
	virtual void cancelDelayed(const std::string& uuid) {
		{ tr::Rec(qid, "cnl<").str(uuid); }
		for (auto it = held.begin(); it != held.end();) {
			if (it->uuid == uuid) it = held.erase(it);
			else ++it;
		}
		{ tr::Rec(qid, "cnl>").str(uuid); }
	}
	virtual void cancelAllDelayed() {
		{ tr::Rec(qid, "cna<"); }
		held.clear();
		{ tr::Rec(qid, "cna>"); }
	}
	virtual std::shared_ptr<EventQueueImpl> create() { return std::shared_ptr<EventQueueImpl>(); }
	virtual void enqueue(const Event& event) {}
	virtual Event dequeue(size_t blockMs) { return Event(); }
	virtual void reset() { held.clear(); }
	virtual Data serialize() { return Data(); }
	virtual void deserialize(const Data& data) {}
	/* deliver the first held event with this name (among several: the smallest delay, then the oldest) */
	bool release(const std::string& name) {
		auto best = held.end();
		for (auto it = held.begin(); it != held.end(); ++it) {
			if (it->event.name == name && (best == held.end() || it->delayMs < best->delayMs)) best = it;
		}
		if (best == held.end()) return false;
		Held h = *best;
		held.erase(best);
		{ tr::Rec(qid, "rel").str(h.event.name).str(h.uuid); }
		_cb->eventReady(h.event, h.uuid);
		return true;
	}
};

class RecLogger : public LoggerImpl {
public:
	std::string tag;
	RecLogger(const std::string& t) : tag(t) {}
	virtual std::shared_ptr<LoggerImpl> create() {
		return std::shared_ptr<LoggerImpl>(new RecLogger(tag + "+"));
	}
	virtual void log(LogSeverity severity, const Event& event) {
		tr::Rec(tag, "log").num((int)severity).str(event.name);
	}
	virtual void log(LogSeverity severity, const Data& data) {
		tr::Rec(tag, "log").num((int)severity).str(data.asJSON());
	}
	virtual void log(LogSeverity severity, const std::string& message) {
		if (severity == USCXML_LOG || severity == USCXML_VERBATIM)
			tr::Rec(tag, "log").num((int)severity).str(message);
		else {
			// diagnostics of the subject: keep the head only (they may contain pointers)
			std::string m = message.substr(0, message.find('\n'));
			tr::Rec(tag, "dia").num((int)severity).str(m.substr(0, 160));
		}
	}
};

inline std::string sessTag(const std::string& sid) {
	auto it = g_sessTag.find(sid);
	if (it != g_sessTag.end()) return it->second;
	// first sighting of a session the harness did not create: an invoked child
	std::string tag = "c" + std::to_string(g_childCount++);
	g_sessTag[sid] = tag;
	std::string invokeId, ext, in, dl, name;
	// no locking: we hold the baton and nobody mutates _instances between decision points
	auto inst = InterpreterImpl::_instances.find(sid);
	if (inst != InterpreterImpl::_instances.end()) {
		std::shared_ptr<InterpreterImpl> impl = inst->second.lock();
		if (impl) {
			invokeId = impl->_invokeId;
			name = impl->_name;
			ext = queueIdOf(impl->_externalQueue.getImplBase().get());
			in = queueIdOf(impl->_internalQueue.getImplBase().get());
			dl = queueIdOf(impl->_delayQueue.getImplDelayed().get());
		}
	}
	tr::Rec(tag, "bind").str(invokeId).str(name).str(ext).str(in).str(dl);
	return tag;
}

class RecMonitor : public InterpreterMonitor {
public:
	RecMonitor() { copyToInvokers(true); }
	virtual void beforeProcessingEvent(const std::string& s, const Event& event) {
		tr::Rec(sessTag(s), "ev").rawjson(eventJSON(event)).str(event.uuid);
	}
	virtual void beforeMicroStep(const std::string& s) { tr::Rec(sessTag(s), "bms"); }
	virtual void afterMicroStep(const std::string& s) { tr::Rec(sessTag(s), "ams"); }
	virtual void beforeExitingState(const std::string& s, const std::string& n, const XERCESC_NS::DOMElement* e) {
		tr::Rec(sessTag(s), "bxs").str(n).str(elemDesc(e));
	}
	virtual void afterExitingState(const std::string& s, const std::string& n, const XERCESC_NS::DOMElement* e) {
		tr::Rec(sessTag(s), "axs").str(n).str(elemDesc(e));
	}
	virtual void beforeExecutingContent(const std::string& s, const XERCESC_NS::DOMElement* e) {
		std::string d = elemDesc(e);
		tr::Rec(sessTag(s), "bxc").str(d);
		if (g_trackContent) g_trackContent(true, d);
	}
	virtual void afterExecutingContent(const std::string& s, const XERCESC_NS::DOMElement* e) {
		std::string d = elemDesc(e);
		tr::Rec(sessTag(s), "axc").str(d);
		if (g_trackContent) g_trackContent(false, d);
	}
	virtual void beforeUninvoking(const std::string& s, const XERCESC_NS::DOMElement* e, const std::string& id) {
		tr::Rec(sessTag(s), "bun").str(elemDesc(e)).str(id);
	}
	virtual void afterUninvoking(const std::string& s, const XERCESC_NS::DOMElement* e, const std::string& id) {
		tr::Rec(sessTag(s), "aun").str(elemDesc(e)).str(id);
	}
	virtual void beforeTakingTransition(const std::string& s, const XERCESC_NS::DOMElement* e) {
		tr::Rec(sessTag(s), "btt").str(elemDesc(e));
	}
	virtual void afterTakingTransition(const std::string& s, const XERCESC_NS::DOMElement* e) {
		tr::Rec(sessTag(s), "att").str(elemDesc(e));
	}
	virtual void beforeEnteringState(const std::string& s, const std::string& n, const XERCESC_NS::DOMElement* e) {
		tr::Rec(sessTag(s), "bes").str(n).str(elemDesc(e));
	}
	virtual void afterEnteringState(const std::string& s, const std::string& n, const XERCESC_NS::DOMElement* e) {
		tr::Rec(sessTag(s), "aes").str(n).str(elemDesc(e));
	}
	virtual void beforeInvoking(const std::string& s, const XERCESC_NS::DOMElement* e, const std::string& id) {
		tr::Rec(sessTag(s), "biv").str(elemDesc(e)).str(id);
	}
	virtual void afterInvoking(const std::string& s, const XERCESC_NS::DOMElement* e, const std::string& id) {
		tr::Rec(sessTag(s), "aiv").str(elemDesc(e)).str(id);
	}
	virtual void onStableConfiguration(const std::string& s) { tr::Rec(sessTag(s), "stb"); }
	virtual void beforeCompletion(const std::string& s) { tr::Rec(sessTag(s), "bcp"); }
	virtual void afterCompletion(const std::string& s) { tr::Rec(sessTag(s), "acp"); }
	virtual void reportIssue(const std::string& s, const InterpreterIssue& issue) {
		tr::Rec(sessTag(s), "iss").str(issue.message);
	}
};

} // namespace h

