// The four conformance scripts of sim/conformance/real_libevent.c, run against simevent inside the simulator
// (usim --simevent-selftest).  Same expectations as against the real library.
#include "../sim/sim.h"
#include <event2/event.h>
#include <event2/thread.h>
#include <stdio.h>
#include <string.h>
#include <thread>
#include <unistd.h>
#include <string>

static std::string g_order;
static void cb_order(evutil_socket_t, short, void* arg) { g_order += (const char*)arg; }
static bool in_cb = false, cb_done = false;
static void cb_slow(evutil_socket_t, short, void*) { in_cb = true; usim::sleep_ms(300); cb_done = true; }
static void loop_once(struct event_base* b) { event_base_loop(b, EVLOOP_ONCE); }

static int fails = 0;
#define CHECK(c, msg) do { if (!(c)) { printf("FAIL %s\n", msg); fails++; } else printf("ok   %s\n", msg); } while (0)

static void noVerdict(const char* rule, const std::string& detail) {
	printf("FAIL simevent selftest ended in verdict %s\n%s\n", rule, detail.c_str());
	fflush(stdout);
	_exit(1);
}

int simevent_selftest() {
	usim::set_verdict_handler(noVerdict);
	for (int pol = 0; pol < 2; pol++) {
		for (uint64_t seed = 1; seed <= (pol ? 40 : 1); seed++) {
			usim::Config cfg;
			cfg.seed = seed;
			cfg.policy = pol ? usim::POL_RANDOM : usim::POL_NONPREEMPT;
			usim::begin(cfg);
			struct timeval tv;
			bool verbose = (pol == 0);
			int before = fails;
			{ // (a)
				struct event_base* b = event_base_new();
				g_order.clear();
				struct event* e = event_new(b, -1, 0, cb_order, (void*)"A");
				tv.tv_sec = 0; tv.tv_usec = 60000; event_add(e, &tv);
				event_base_loopbreak(b);
				uint64_t t0 = usim::now_ns();
				event_base_loop(b, EVLOOP_ONCE);
				bool ok = g_order == "A" && usim::now_ns() - t0 >= 60000000ull;
				if (verbose || !ok) CHECK(ok, "(a) loopbreak before the loop is entered is forgotten: the loop blocked and ran the timer");
				event_free(e); event_base_free(b);
			}
			{ // (b)
				struct event_base* b = event_base_new();
				in_cb = cb_done = false;
				struct event* e = event_new(b, -1, 0, cb_slow, NULL);
				tv.tv_sec = 0; tv.tv_usec = 1000; event_add(e, &tv);
				std::thread th(loop_once, b);
				while (!in_cb) usim::sleep_ms(1);
				event_del(e);
				bool ok = cb_done;
				if (verbose || !ok) CHECK(ok, "(b) event_del from another task returned only after the running callback finished");
				th.join();
				event_free(e); event_base_free(b);
			}
			{ // (c)
				struct event_base* b = event_base_new();
				g_order.clear();
				struct event* a = event_new(b, -1, 0, cb_order, (void*)"A");
				struct event* bb = event_new(b, -1, 0, cb_order, (void*)"B");
				struct event* c = event_new(b, -1, 0, cb_order, (void*)"C");
				tv.tv_sec = 0; tv.tv_usec = 10000; event_add(a, &tv);
				tv.tv_usec = 5000; event_add(bb, &tv);
				tv.tv_usec = 20000; event_add(c, &tv);
				usim::sleep_ms(40);
				event_base_loop(b, EVLOOP_ONCE);
				bool ok = g_order == "BAC";
				if (verbose || !ok) CHECK(ok, "(c) one EVLOOP_ONCE pass ran all three due timers in due order (BAC for 10, 5, 20 ms)");
				event_free(a); event_free(bb); event_free(c); event_base_free(b);
			}
			{ // (d)
				struct event_base* b = event_base_new();
				g_order.clear();
				struct event* e = event_new(b, -1, 0, cb_order, (void*)"X");
				tv.tv_sec = 10; tv.tv_usec = 0; event_add(e, &tv);
				std::thread th(loop_once, b);
				usim::sleep_ms(50);
				uint64_t t0 = usim::now_ns();
				event_base_loopbreak(b);
				th.join();
				bool ok = usim::now_ns() - t0 < 1000000000ull && g_order.empty();
				if (verbose || !ok) CHECK(ok, "(d) loopbreak woke the blocked loop without running the far timer");
				event_free(e); event_base_free(b);
			}
			{ // (e)
				struct event_base* b = event_base_new();
				int n_ok = 0;
				for (int i = 1; i <= 256; i++) {
					tv.tv_sec = 0; tv.tv_usec = i * 1000;
					if (event_base_init_common_timeout(b, &tv)) n_ok++;
				}
				tv.tv_sec = 0; tv.tv_usec = 5000;
				const struct timeval* again = event_base_init_common_timeout(b, &tv);
				tv.tv_sec = 0; tv.tv_usec = 300000;
				const struct timeval* over = event_base_init_common_timeout(b, &tv);
				bool ok = n_ok == 256 && again != NULL && over == NULL;
				if (verbose || !ok) CHECK(ok, "(e) 256 distinct common timeouts per base, a known duration is found again, the 257th distinct one yields NULL");
				g_order.clear();
				struct event* never = event_new(b, -1, 0, cb_order, (void*)"N");
				struct event* soon = event_new(b, -1, 0, cb_order, (void*)"S");
				event_add(never, over);
				event_add(soon, again);
				usim::sleep_ms(40);
				event_base_loop(b, EVLOOP_NONBLOCK);
				ok = g_order == "S";
				if (verbose || !ok) CHECK(ok, "(e) a timer added with a NULL timeout did not fire, the one added with a common-timeout handle did");
				event_free(never); event_free(soon); event_base_free(b);
			}
			usim::end();
			if (fails != before) printf("     (policy %s, seed %llu)\n", pol ? "random" : "nonpreempt", (unsigned long long)seed);
		}
	}
	printf("%s\n", fails ? "SIMEVENT CONFORMANCE FAILED" : "SIMEVENT CONFORMANCE OK (nonpreempt + 40 random schedules)");
	return fails ? 1 : 0;
}
