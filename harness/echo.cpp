// EchoInvoker: a thread-free invoker for snapshot workloads (C14).  type="echo".
// Every event sent to it (#_<invokeid>) is answered at once with an external event
// "echo.<name>" whose data is the rendering of the arguments the invocation was
// started with (<param>, namelist, content), so that the chart can observe which
// arguments an invocation re-created by deserialize() was given.  The invoker keeps
// no state in the snapshot: what it was invoked with is the interpreter's business.
#include "echo.h"
#include "uscxml/plugins/InvokerImpl.h"
#include "uscxml/plugins/Factory.h"
#include <sstream>

namespace h {
using namespace uscxml;

class EchoInvoker : public InvokerImpl {
public:
	EchoInvoker() : _callbacks(nullptr), _active(false) {}
	std::list<std::string> getNames() override {
		return std::list<std::string>(1, "echo");
	}
	std::shared_ptr<InvokerImpl> create(InvokerCallbacks* callbacks) override {
		std::shared_ptr<EchoInvoker> inv(new EchoInvoker());
		inv->_callbacks = callbacks;
		return inv;
	}
	void invoke(const std::string& source, const Event& invokeEvent) override {
		std::ostringstream ss;
		ss << "src=" << source;
		for (auto& p : invokeEvent.params) ss << " " << p.first << "=" << p.second.asJSON();
		for (auto& n : invokeEvent.namelist) ss << " " << n.first << ":" << n.second.asJSON();
		if (!invokeEvent.data.empty()) ss << " data=" << invokeEvent.data.asJSON();
		_boot = ss.str();
		_active = true;
	}
	Data getDataModelVariables() override { return Data(); }
	void uninvoke() override { _active = false; }
	void eventFromSCXML(const Event& event) override {
		if (!_active || !_callbacks) return;
		Event e;
		e.name = "echo." + event.name;
		e.eventType = Event::EXTERNAL;
		e.invokeid = _invokeId;
		e.data = Data(_boot, Data::VERBATIM);
		_callbacks->enqueueExternal(e);
	}
private:
	InvokerCallbacks* _callbacks;
	bool _active;
	std::string _boot;
};

void registerEchoInvoker() {
	Factory::getInstance()->registerInvoker(new EchoInvoker());
}
}
