// Transformer ops (C20) and environment perturbation helpers.
#pragma once
#include "recorder.h"
namespace h {
std::string doTransform(uscxml::Interpreter& interp, const js::Value& op);
void heapWarm(uint64_t seed, int n);
}
