# Builds usim (plain and san flavours) from /repo's *current working tree*
# plus /verif/sim and /verif/harness.  See DESIGN.md section 10.
REPO ?= /repo
B ?= build
CXX = g++
CC = gcc

REPO_DIRS = src/uscxml src/uscxml/interpreter src/uscxml/messages src/uscxml/util \
  src/uscxml/plugins src/uscxml/plugins/datamodel/null src/uscxml/plugins/datamodel/lua \
  src/uscxml/plugins/datamodel/promela src/uscxml/plugins/datamodel/promela/parser \
  src/uscxml/plugins/invoker/scxml src/uscxml/plugins/ioprocessor/scxml \
  src/uscxml/transform src/uscxml/transform/promela \
  contrib/src/jsmn contrib/src/uriparser/src
REPO_SRCS := $(foreach d,$(REPO_DIRS),$(wildcard $(REPO)/$(d)/*.cpp) $(wildcard $(REPO)/$(d)/*.c)) \
  $(REPO)/src/uscxml/debug/InterpreterIssue.cpp
# Plugins.cpp is only for BUILD_AS_PLUGINS; URL.mm is Objective-C
REPO_SRCS := $(filter-out %/Plugins.cpp,$(REPO_SRCS))

SIM_SRCS = sim/sim.cpp sim/simevent.cpp sim/entropy.cpp
HARNESS_SRCS = harness/usim.cpp harness/exec.cpp harness/faulty.cpp harness/echo.cpp harness/transform_ops.cpp harness/simevent_selftest.cpp

INCLUDES = -I/verif/include -I$(REPO)/src -I$(REPO)/contrib/src -I$(REPO)/contrib/src/jsmn \
  -I$(REPO)/contrib/src/uriparser/include -I/usr/include/lua5.3 -I$(REPO)/contrib/src/LuaBridge
DEFINES = -DUSCXML_EXPORT -DXERCESC_NS=xercesc_3_2 -DUSCXML_VERIF
WRAPS = pthread_create pthread_join pthread_detach pthread_mutex_lock pthread_mutex_trylock pthread_mutex_unlock \
  pthread_cond_wait pthread_cond_timedwait pthread_cond_clockwait pthread_cond_signal pthread_cond_broadcast \
  pthread_cond_destroy clock_gettime gettimeofday time nanosleep usleep clock_nanosleep
comma := ,
WRAPFLAGS = $(foreach w,$(WRAPS),-Wl$(comma)--wrap=$(w))
LIBS = -llua5.3 -lxerces-c -lcurl -lpthread -lm -ldl

BASEFLAGS = -w -O1 -g1 -DNDEBUG -fPIC -MMD -MP
FLAV_plain =
FLAV_san = -fsanitize=address,undefined -fno-sanitize-recover=undefined -fno-omit-frame-pointer
# UBSan on the LuaBridge and generated parser units dominates build time and finds only their idioms
NOUBSAN = %LuaDataModel.cpp %promela.tab.cpp %promela.lex.yy.cpp

objname = $(subst /,__,$(patsubst $(REPO)/%,%,$(1)))

define FLAVOUR
$(1)_REPO_OBJS := $$(foreach s,$$(REPO_SRCS),$(B)/$(1)/obj/$$(call objname,$$(s)).o)
$(1)_OWN_OBJS := $$(foreach s,$$(SIM_SRCS) $$(HARNESS_SRCS),$(B)/$(1)/obj/$$(call objname,$$(s)).o)

$(B)/$(1)/usim: $$($(1)_REPO_OBJS) $$($(1)_OWN_OBJS)
	$(CXX) $$(FLAV_$(1)) -o $$@ $$^ -static-libstdc++ -no-pie $(WRAPFLAGS) $(LIBS)
endef
$(eval $(call FLAVOUR,plain))
$(eval $(call FLAVOUR,san))

define REPO_RULE
$(B)/$(1)/obj/$(call objname,$(2)).o: $(2) | $(B)/$(1)/obj
	$(if $(filter %.c,$(2)),$(CC) $(BASEFLAGS) $(FLAV_$(1)) $(INCLUDES) $(DEFINES) -c $(2) -o $$@,\
	$(CXX) -std=gnu++11 $(BASEFLAGS) $(if $(filter $(NOUBSAN),$(2)),$(filter-out -fsanitize=address$(comma)undefined -fno-sanitize-recover=undefined,$(FLAV_$(1))) $(if $(FLAV_$(1)),-fsanitize=address),$(FLAV_$(1))) $(INCLUDES) $(DEFINES) \
	-c $(2) -o $$@)
endef
$(foreach f,plain san,$(foreach s,$(REPO_SRCS),$(eval $(call REPO_RULE,$(f),$(s)))))

define OWN_RULE
$(B)/$(1)/obj/$(call objname,$(2)).o: $(2) | $(B)/$(1)/obj
	$(CXX) -std=gnu++11 $(BASEFLAGS) $(FLAV_$(1)) -fno-access-control $(INCLUDES) $(DEFINES) -c $(2) -o $$@
endef
$(foreach f,plain san,$(foreach s,$(SIM_SRCS) $(HARNESS_SRCS),$(eval $(call OWN_RULE,$(f),$(s)))))

$(B)/plain/obj $(B)/san/obj:
	mkdir -p $@

.PHONY: all plain san clean selftest conformance
# libevent conformance: the same four scripts against the real library and against simevent in the simulator
$(B)/conformance_real: sim/conformance/real_libevent.c | $(B)/plain/obj
	$(CC) -O1 -o $@ $< -levent -levent_pthreads -lpthread
conformance: $(B)/conformance_real $(B)/plain/usim
	$(B)/conformance_real
	$(B)/plain/usim --simevent-selftest
selftest: conformance plain
	cd /verif && ./check selftest
all: plain san
plain: $(B)/plain/usim
san: $(B)/san/usim
clean:
	rm -rf $(B)

-include $(wildcard $(B)/plain/obj/*.d) $(wildcard $(B)/san/obj/*.d)
