// usim kernel: baton scheduler, simulated clock, pthread/clock wrappers.
// See sim.h and DESIGN.md section 3.
#include "sim.h"

#include <errno.h>
#include <pthread.h>
#include <semaphore.h>
#include <stdio.h>
#include <stdlib.h>
#include <string.h>
#include <sys/time.h>
#include <time.h>
#include <unistd.h>

#include <algorithm>
#include <map>
#include <sstream>
#include <unordered_map>

extern "C" {
int __real_pthread_create(pthread_t*, const pthread_attr_t*, void* (*)(void*), void*);
int __real_pthread_join(pthread_t, void**);
int __real_pthread_detach(pthread_t);
int __real_pthread_mutex_lock(pthread_mutex_t*);
int __real_pthread_mutex_trylock(pthread_mutex_t*);
int __real_pthread_mutex_unlock(pthread_mutex_t*);
int __real_pthread_cond_wait(pthread_cond_t*, pthread_mutex_t*);
int __real_pthread_cond_timedwait(pthread_cond_t*, pthread_mutex_t*, const struct timespec*);
int __real_pthread_cond_clockwait(pthread_cond_t*, pthread_mutex_t*, clockid_t, const struct timespec*);
int __real_pthread_cond_signal(pthread_cond_t*);
int __real_pthread_cond_broadcast(pthread_cond_t*);
int __real_pthread_cond_destroy(pthread_cond_t*);
int __real_clock_gettime(clockid_t, struct timespec*);
int __real_gettimeofday(struct timeval*, void*);
time_t __real_time(time_t*);
int __real_nanosleep(const struct timespec*, struct timespec*);
int __real_usleep(useconds_t);
int __real_clock_nanosleep(clockid_t, int, const struct timespec*, struct timespec*);
}

namespace usim {

namespace {

struct Task {
	int id = 0;
	sem_t sem;
	std::string name;
	enum St { RUNNABLE, BLOCKED, FINISHED } st = RUNNABLE;
	const std::function<bool()>* ready = nullptr;
	const std::function<uint64_t()>* deadline = nullptr;
	const char* what = "";
	const void* obj = nullptr;
	int api_depth = 0;
	const char* api_what = "";
	void* (*fn)(void*) = nullptr;
	void* arg = nullptr;
	pthread_t real;
	bool real_valid = false;
	uint64_t prio = 0;
	int64_t stalled_until = 0;
};

struct MState {
	Task* owner = nullptr;
	int count = 0;
};

struct Waiter {
	Task* task;
	pthread_cond_t* cond;
	bool signalled = false;
	bool spurious = false;
};

struct Sim {
	bool active = false;
	Config cfg;
	uint64_t rng = 0;
	uint64_t now = 0;      // monotonic ns
	int64_t skew = 0;      // wall = wall_offset + now + skew
	uint64_t seq = 0;
	Stats stats;
	std::vector<Task*> tasks;
	std::vector<int> declog;
	std::unordered_map<pthread_mutex_t*, MState> mutexes; // never iterated
	std::vector<Waiter*> waiters;                          // registration order
	std::vector<int64_t> pct_points;
	uint64_t pct_low = 0;
	VerdictHandler handler = nullptr;
};

Sim S;
thread_local Task* tl_cur = nullptr;

inline uint64_t splitmix(uint64_t& s) {
	uint64_t z = (s += 0x9E3779B97F4A7C15ull);
	z = (z ^ (z >> 30)) * 0xBF58476D1CE4E5B9ull;
	z = (z ^ (z >> 27)) * 0x94D049BB133111EBull;
	return z ^ (z >> 31);
}
inline uint64_t rnd_n(uint64_t n) {
	return n ? splitmix(S.rng) % n : 0;
}
inline bool bern(double p) {
	if (p <= 0) return false;
	return (splitmix(S.rng) >> 11) * (1.0 / 9007199254740992.0) < p;
}
inline void hmix(uint64_t v) {
	S.stats.sched_hash = (S.stats.sched_hash ^ v) * 1099511628211ull;
}
inline uint64_t strhash(const char* s) {
	uint64_t h = 1469598103934665603ull;
	for (; *s; ++s) h = (h ^ (unsigned char)*s) * 1099511628211ull;
	return h;
}

bool is_ready(Task* t) {
	if (t->st == Task::RUNNABLE) return true;
	if (t->st == Task::BLOCKED && t->ready && (*t->ready)()) return true;
	return false;
}

bool any_api_in_progress() {
	for (Task* t : S.tasks)
		if (t->st != Task::FINISHED && t->api_depth > 0) return true;
	return false;
}

// the decision point -----------------------------------------------------------
void reschedule(const char* kind) {
	Task* me = tl_cur;
	S.stats.decisions++;
	if (S.stats.decisions > S.cfg.max_decisions) {
		verdict("no-progress", "decision budget exceeded\n" + describe_tasks());
	}

	// fault: spurious condition wake-up (legal per POSIX)
	if (S.cfg.spurious_p > 0 && !S.waiters.empty() && bern(S.cfg.spurious_p)) {
		std::vector<Waiter*> cand;
		for (Waiter* w : S.waiters)
			if (!w->signalled) cand.push_back(w);
		if (!cand.empty()) {
			Waiter* w = cand[rnd_n(cand.size())];
			w->signalled = true;
			w->spurious = true;
			S.stats.spurious++;
		}
	}
	// fault: starve a task for a while
	if (S.cfg.stall_p > 0 && bern(S.cfg.stall_p)) {
		std::vector<Task*> cand;
		for (Task* t : S.tasks)
			if (t->st != Task::FINISHED) cand.push_back(t);
		if (!cand.empty()) {
			Task* t = cand[rnd_n(cand.size())];
			t->stalled_until = S.stats.decisions + 1 + (int64_t)rnd_n(S.cfg.stall_len > 0 ? S.cfg.stall_len : 1);
			S.stats.stalls++;
		}
	}

	std::vector<Task*> runnable;
	bool jumped = false;
	for (;;) {
		runnable.clear();
		for (Task* t : S.tasks)
			if (t->st != Task::FINISHED && is_ready(t)) runnable.push_back(t);
		if (!runnable.empty()) break;
		uint64_t dl = UINT64_MAX;
		for (Task* t : S.tasks)
			if (t->st == Task::BLOCKED && t->deadline) dl = std::min(dl, (*t->deadline)());
		if (dl == UINT64_MAX) {
			verdict("deadlock", "no task runnable and nothing pending\n" + describe_tasks());
		}
		if (dl <= S.now) {
			verdict("kernel-bug", "deadline in the past but task not ready\n" + describe_tasks());
		}
		if (dl - S.now > S.cfg.stuck_jump_ns) {
			if (any_api_in_progress())
				verdict("stuck", "all tasks blocked, next wake-up source is more than the stuck threshold away while an API call is in progress\n" + describe_tasks());
			else
				verdict("idle-forever", "all tasks blocked and no wake-up source within the stuck threshold (no API call with a bound in progress)\n" + describe_tasks());
		}
		S.now = dl;
		jumped = true;
		S.stats.time_jumps++;
	}

	// adversarial time advance: lets a timer become due while others still run
	if (S.cfg.time_adv_p > 0 && bern(S.cfg.time_adv_p)) {
		uint64_t dl = UINT64_MAX;
		for (Task* t : S.tasks)
			if (t->st == Task::BLOCKED && t->deadline && !is_ready(t)) {
				uint64_t d = (*t->deadline)();
				if (d > S.now) dl = std::min(dl, d);
			}
		if (dl != UINT64_MAX && dl - S.now <= S.cfg.stuck_jump_ns) {
			uint64_t span = dl - S.now;
			uint64_t adv = (rnd_n(2) == 0) ? span : 1 + rnd_n(span);
			S.now += adv;
			S.stats.adv_time++;
			runnable.clear();
			for (Task* t : S.tasks)
				if (t->st != Task::FINISHED && is_ready(t)) runnable.push_back(t);
		}
	}

	// stalled tasks are skipped unless nothing else could run
	if (S.cfg.stall_p > 0) {
		std::vector<Task*> r2;
		for (Task* t : runnable)
			if (t->stalled_until <= S.stats.decisions) r2.push_back(t);
		if (!r2.empty()) runnable.swap(r2);
	}

	Task* next = nullptr;
	size_t di = (size_t)S.stats.decisions - 1;
	if (di < S.cfg.decisions.size()) {
		int want = S.cfg.decisions[di];
		for (Task* t : runnable)
			if (t->id == want) next = t;
		if (!next) S.stats.replay_diverged++;
	}
	bool me_runnable = false;
	for (Task* t : runnable)
		if (t == me) me_runnable = true;
	if (!next) {
		switch (S.cfg.policy) {
		case POL_STICKY:
			if (me_runnable && bern(S.cfg.sticky_p)) next = me;
			else next = runnable[rnd_n(runnable.size())];
			break;
		case POL_PCT: {
			for (int64_t p : S.pct_points)
				if (p == S.stats.decisions && me) me->prio = S.pct_low--;
			for (Task* t : runnable)
				if (!next || t->prio > next->prio) next = t;
			break;
		}
		case POL_NONPREEMPT:
			// after a clock jump several tasks may become ready at the same instant: break the
			// tie by task id, not by who happened to call the scheduler (deterministic-history mode)
			next = (me_runnable && !jumped) ? me : runnable[0];
			break;
		default:
			next = runnable[rnd_n(runnable.size())];
		}
	}
	S.declog.push_back(next->id);
	hmix((uint64_t)next->id * 1315423911ull + strhash(kind));
	if (next->st == Task::BLOCKED) next->st = Task::RUNNABLE;
	if (next != me) {
		S.stats.switches++;
		sem_post(&next->sem);
		if (me && me->st != Task::FINISHED) {
			while (sem_wait(&me->sem) != 0 && errno == EINTR) {}
		}
	}
}

void* trampoline(void* p) {
	Task* t = (Task*)p;
	tl_cur = t;
	while (sem_wait(&t->sem) != 0 && errno == EINTR) {}
	void* ret = t->fn(t->arg);
	t->st = Task::FINISHED;
	reschedule("exit");
	return ret;
}

Task* task_of(pthread_t th) {
	for (Task* t : S.tasks)
		if (t->real_valid && pthread_equal(t->real, th)) return t;
	return nullptr;
}

inline bool in_sim() {
	return S.active && tl_cur != nullptr;
}

inline bool mutex_recursive(pthread_mutex_t* m) {
	return (m->__data.__kind & 3) == PTHREAD_MUTEX_RECURSIVE_NP;
}

// take the mutex (blocking in simulated time); no decision point before
void sim_lock_nodp(pthread_mutex_t* m) {
	Task* me = tl_cur;
	for (;;) {
		MState& ms = S.mutexes[m];
		if (ms.owner == nullptr) {
			ms.owner = me;
			ms.count = 1;
			return;
		}
		if (ms.owner == me && mutex_recursive(m)) {
			ms.count++;
			return;
		}
		std::function<bool()> ready = [m]() {
			auto it = S.mutexes.find(m);
			return it == S.mutexes.end() || it->second.owner == nullptr;
		};
		std::function<uint64_t()> dl = []() { return UINT64_MAX; };
		block_until(ready, dl, "mutex", m);
	}
}

int sim_unlock_nodp(pthread_mutex_t* m) {
	Task* me = tl_cur;
	auto it = S.mutexes.find(m);
	if (it == S.mutexes.end() || it->second.owner != me) {
		verdict("unlock-not-owner", "pthread_mutex_unlock by a task that does not own the mutex\n" + describe_tasks());
		return EPERM;
	}
	if (--it->second.count == 0) S.mutexes.erase(it);
	return 0;
}

int cond_wait_common(pthread_cond_t* c, pthread_mutex_t* m, bool timed, bool realtime, uint64_t abs_ns) {
	Task* me = tl_cur;
	Waiter w;
	w.task = me;
	w.cond = c;
	S.waiters.push_back(&w);
	sim_unlock_nodp(m);
	std::function<bool()> ready = [&w, timed, realtime, abs_ns]() {
		if (w.signalled) return true;
		if (!timed) return false;
		uint64_t nowv = realtime ? wall_ns() : S.now;
		return nowv >= abs_ns;
	};
	std::function<uint64_t()> dl = [timed, realtime, abs_ns]() -> uint64_t {
		if (!timed) return UINT64_MAX;
		if (!realtime) return abs_ns;
		// wall = offset + now + skew  =>  now = abs - offset - skew
		int64_t v = (int64_t)abs_ns - (int64_t)S.cfg.wall_offset_ns - S.skew;
		if (v < 0) v = 0;
		return (uint64_t)v;
	};
	block_until(ready, dl, "cond", c);
	S.waiters.erase(std::find(S.waiters.begin(), S.waiters.end(), &w));
	bool timed_out = !w.signalled;
	sim_lock_nodp(m);
	return timed_out ? ETIMEDOUT : 0;
}

uint64_t ts_ns(const struct timespec* ts) {
	if (ts->tv_sec < 0) return 0;
	return (uint64_t)ts->tv_sec * 1000000000ull + (uint64_t)ts->tv_nsec;
}

} // namespace

// public API ----------------------------------------------------------------------
void begin(const Config& cfg) {
	if (S.active) {
		fprintf(stderr, "usim::begin while active\n");
		abort();
	}
	for (Task* t : S.tasks) {
		sem_destroy(&t->sem);
		delete t;
	}
	S.tasks.clear();
	S.cfg = cfg;
	S.rng = cfg.seed * 0x2545F4914F6CDD1Dull + 0x1234567;
	S.now = 0;
	S.skew = 0;
	S.seq = 0;
	S.stats = Stats();
	S.declog.clear();
	S.mutexes.clear();
	S.waiters.clear();
	S.pct_points.clear();
	S.pct_low = 1000;
	if (cfg.policy == POL_PCT) {
		for (int i = 0; i < cfg.pct_d; i++)
			S.pct_points.push_back(1 + (int64_t)rnd_n(cfg.pct_horizon > 0 ? cfg.pct_horizon : 1));
	}
	Task* t = new Task();
	t->id = 0;
	t->name = "main";
	sem_init(&t->sem, 0, 0);
	t->real = pthread_self();
	t->real_valid = true;
	t->prio = 1000000 + rnd_n(1000000);
	S.tasks.push_back(t);
	S.stats.tasks = 1;
	tl_cur = t;
	S.active = true;
}

void end() {
	if (!S.active) return;
	for (Task* t : S.tasks)
		if (t->id != 0 && t->st != Task::FINISHED)
			verdict("leaked-task", "task still alive at usim::end\n" + describe_tasks());
	S.stats.end_ns = S.now;
	S.active = false;
	tl_cur = nullptr;
}

bool active() {
	return S.active;
}
const Stats& stats() {
	S.stats.end_ns = S.now;
	return S.stats;
}
const std::vector<int>& decision_log() {
	return S.declog;
}
int current_task() {
	return tl_cur ? tl_cur->id : -1;
}
void name_task(const char* name) {
	if (tl_cur) tl_cur->name = name;
}
const char* task_name(int id) {
	if (id >= 0 && (size_t)id < S.tasks.size()) return S.tasks[id]->name.c_str();
	return "?";
}
void yield(const char* why) {
	if (in_sim()) reschedule(why);
}
uint64_t now_ns() {
	return S.now;
}
uint64_t wall_ns() {
	return (uint64_t)((int64_t)S.cfg.wall_offset_ns + (int64_t)S.now + S.skew);
}
void skew_wall(int64_t delta) {
	S.skew += delta;
	S.stats.clock_skews++;
}
uint64_t next_seq() {
	return ++S.seq;
}
bool deterministic_mode() {
	return !S.active || S.cfg.policy == POL_NONPREEMPT;
}
uint64_t rnd(uint64_t n) {
	return rnd_n(n);
}
void api_enter(const char* what) {
	if (tl_cur) {
		tl_cur->api_depth++;
		tl_cur->api_what = what;
	}
}
void api_leave() {
	if (tl_cur && tl_cur->api_depth > 0) tl_cur->api_depth--;
}

void sleep_ms(uint64_t ms) {
	if (!in_sim()) return;
	uint64_t until = S.now + ms * 1000000ull;
	std::function<bool()> ready = [until]() { return S.now >= until; };
	std::function<uint64_t()> dl = [until]() { return until; };
	block_until(ready, dl, "sleep", nullptr);
}

bool others_quiescent(uint64_t horizon_ns) {
	Task* me = tl_cur;
	for (Task* t : S.tasks) {
		if (t == me || t->st == Task::FINISHED || t->what == std::string("settle") || t->what == std::string("drain")) continue;
		if (is_ready(t)) return false;
		// a task that wakes up by itself within the horizon (timed wait, sleep, poll pause) is not quiescent
		if (horizon_ns && t->st == Task::BLOCKED && t->deadline) {
			uint64_t d = (*t->deadline)();
			if (d != UINT64_MAX && d <= S.now + horizon_ns) return false;
		}
	}
	return true;
}

void settle() {
	if (!in_sim()) return;
	Task* me = tl_cur;
	std::function<bool()> ready = [me]() {
		for (Task* t : S.tasks)
			if (t != me && t->st != Task::FINISHED && t->what != std::string("settle") && is_ready(t)) return false;
		return true;
	};
	std::function<uint64_t()> dl = []() { return UINT64_MAX; };
	block_until(ready, dl, "settle", nullptr);
}

void block_until(const std::function<bool()>& ready, const std::function<uint64_t()>& deadline,
                 const char* what, const void* obj) {
	Task* me = tl_cur;
	if (!S.active || !me) {
		fprintf(stderr, "usim::block_until outside the simulator (%s)\n", what);
		abort();
	}
	// always a decision point, even if already ready
	me->ready = &ready;
	me->deadline = &deadline;
	me->what = what;
	me->obj = obj;
	do {
		me->st = Task::BLOCKED;
		reschedule(what);
	} while (!ready());
	me->st = Task::RUNNABLE;
	me->ready = nullptr;
	me->deadline = nullptr;
	me->what = "";
	me->obj = nullptr;
}

void set_verdict_handler(VerdictHandler h) {
	S.handler = h;
}

void verdict(const char* rule, const std::string& detail) {
	if (S.handler) S.handler(rule, detail);
	fprintf(stderr, "usim verdict %s: %s\n", rule, detail.c_str());
	fflush(stderr);
	_exit(3);
}

std::string describe_tasks() {
	std::ostringstream os;
	os << "t=" << S.now / 1000000.0 << "ms decisions=" << S.stats.decisions << "\n";
	for (Task* t : S.tasks) {
		os << "  task " << t->id << " '" << t->name << "' ";
		if (t->st == Task::FINISHED) os << "finished";
		else if (t->st == Task::RUNNABLE) os << "runnable";
		else {
			os << "blocked on " << t->what;
			if (!strcmp(t->what, "mutex")) {
				auto it = S.mutexes.find((pthread_mutex_t*)t->obj);
				if (it != S.mutexes.end() && it->second.owner)
					os << " held by task " << it->second.owner->id << " '" << it->second.owner->name << "'";
			}
			if (t->deadline) {
				uint64_t d = (*t->deadline)();
				if (d == UINT64_MAX) os << " (no deadline)";
				else os << " (deadline t=" << d / 1000000.0 << "ms)";
			}
		}
		if (t->api_depth > 0) os << " in API call " << t->api_what;
		os << "\n";
	}
	return os.str();
}

} // namespace usim

// ---------------------------------------------------------------------------------
// link-time wrappers (-Wl,--wrap=...)
// ---------------------------------------------------------------------------------
using namespace usim;

extern "C" {

int __wrap_pthread_create(pthread_t* th, const pthread_attr_t* attr, void* (*fn)(void*), void* arg) {
	if (!in_sim()) return __real_pthread_create(th, attr, fn, arg);
	Task* t = new Task();
	t->id = (int)S.tasks.size();
	t->name = "task" + std::to_string(t->id);
	t->fn = fn;
	t->arg = arg;
	t->prio = 1000000 + rnd_n(1000000);
	sem_init(&t->sem, 0, 0);
	int rc = __real_pthread_create(th, attr, trampoline, t);
	if (rc != 0) {
		delete t;
		return rc;
	}
	t->real = *th;
	t->real_valid = true;
	S.tasks.push_back(t);
	S.stats.tasks++;
	reschedule("create");
	return 0;
}

int __wrap_pthread_join(pthread_t th, void** ret) {
	if (!in_sim()) return __real_pthread_join(th, ret);
	Task* t = task_of(th);
	if (!t) return __real_pthread_join(th, ret);
	std::function<bool()> ready = [t]() { return t->st == Task::FINISHED; };
	std::function<uint64_t()> dl = []() { return UINT64_MAX; };
	block_until(ready, dl, "join", t);
	t->real_valid = false;
	return __real_pthread_join(th, ret);
}

int __wrap_pthread_detach(pthread_t th) {
	if (in_sim()) {
		Task* t = task_of(th);
		if (t) t->real_valid = false;
	}
	return __real_pthread_detach(th);
}

int __wrap_pthread_mutex_lock(pthread_mutex_t* m) {
	if (!in_sim()) return __real_pthread_mutex_lock(m);
	reschedule("lock");
	sim_lock_nodp(m);
	return 0;
}

int __wrap_pthread_mutex_trylock(pthread_mutex_t* m) {
	if (!in_sim()) return __real_pthread_mutex_trylock(m);
	reschedule("trylock");
	MState& ms = S.mutexes[m];
	if (ms.owner == nullptr) {
		ms.owner = tl_cur;
		ms.count = 1;
		return 0;
	}
	if (ms.owner == tl_cur && mutex_recursive(m)) {
		ms.count++;
		return 0;
	}
	return EBUSY;
}

int __wrap_pthread_mutex_unlock(pthread_mutex_t* m) {
	if (!in_sim()) return __real_pthread_mutex_unlock(m);
	int rc = sim_unlock_nodp(m);
	reschedule("unlock");
	return rc;
}

int __wrap_pthread_cond_wait(pthread_cond_t* c, pthread_mutex_t* m) {
	if (!in_sim()) return __real_pthread_cond_wait(c, m);
	return cond_wait_common(c, m, false, false, 0);
}

int __wrap_pthread_cond_timedwait(pthread_cond_t* c, pthread_mutex_t* m, const struct timespec* abs) {
	if (!in_sim()) return __real_pthread_cond_timedwait(c, m, abs);
	return cond_wait_common(c, m, true, true, ts_ns(abs));
}

int __wrap_pthread_cond_clockwait(pthread_cond_t* c, pthread_mutex_t* m, clockid_t clk, const struct timespec* abs) {
	if (!in_sim()) return __real_pthread_cond_clockwait(c, m, clk, abs);
	return cond_wait_common(c, m, true, clk == CLOCK_REALTIME, ts_ns(abs));
}

int __wrap_pthread_cond_signal(pthread_cond_t* c) {
	if (!in_sim()) return __real_pthread_cond_signal(c);
	std::vector<Waiter*> cand;
	for (Waiter* w : S.waiters)
		if (w->cond == c && !w->signalled) cand.push_back(w);
	if (!cand.empty()) cand[rnd_n(cand.size())]->signalled = true;
	reschedule("signal");
	return 0;
}

int __wrap_pthread_cond_broadcast(pthread_cond_t* c) {
	if (!in_sim()) return __real_pthread_cond_broadcast(c);
	for (Waiter* w : S.waiters)
		if (w->cond == c) w->signalled = true;
	reschedule("broadcast");
	return 0;
}

int __wrap_pthread_cond_destroy(pthread_cond_t* c) {
	if (in_sim()) {
		for (Waiter* w : S.waiters)
			if (w->cond == c)
				verdict("cond-destroyed-with-waiters", "pthread_cond_destroy while a task waits on it\n" + describe_tasks());
	}
	return __real_pthread_cond_destroy(c);
}

int __wrap_clock_gettime(clockid_t clk, struct timespec* ts) {
	if (!in_sim()) return __real_clock_gettime(clk, ts);
	uint64_t v = (clk == CLOCK_REALTIME || clk == CLOCK_REALTIME_COARSE) ? wall_ns() : S.now;
	ts->tv_sec = (time_t)(v / 1000000000ull);
	ts->tv_nsec = (long)(v % 1000000000ull);
	return 0;
}

int __wrap_gettimeofday(struct timeval* tv, void* tz) {
	if (!in_sim()) return __real_gettimeofday(tv, tz);
	uint64_t v = wall_ns();
	tv->tv_sec = (time_t)(v / 1000000000ull);
	tv->tv_usec = (suseconds_t)((v % 1000000000ull) / 1000);
	return 0;
}

time_t __wrap_time(time_t* t) {
	if (!in_sim()) return __real_time(t);
	time_t v = (time_t)(wall_ns() / 1000000000ull);
	if (t) *t = v;
	return v;
}

int __wrap_nanosleep(const struct timespec* req, struct timespec* rem) {
	if (!in_sim()) return __real_nanosleep(req, rem);
	uint64_t ns = ts_ns(req);
	uint64_t until = S.now + ns;
	std::function<bool()> ready = [until]() { return S.now >= until; };
	std::function<uint64_t()> dl = [until]() { return until; };
	block_until(ready, dl, "sleep", nullptr);
	return 0;
}

int __wrap_usleep(useconds_t us) {
	if (!in_sim()) return __real_usleep(us);
	struct timespec ts;
	ts.tv_sec = us / 1000000;
	ts.tv_nsec = (us % 1000000) * 1000;
	return __wrap_nanosleep(&ts, nullptr);
}

int __wrap_clock_nanosleep(clockid_t clk, int flags, const struct timespec* req, struct timespec* rem) {
	if (!in_sim()) return __real_clock_nanosleep(clk, flags, req, rem);
	if (flags & TIMER_ABSTIME) {
		uint64_t abs = ts_ns(req);
		uint64_t nowv = (clk == CLOCK_REALTIME) ? wall_ns() : S.now;
		struct timespec ts;
		uint64_t d = abs > nowv ? abs - nowv : 0;
		ts.tv_sec = d / 1000000000ull;
		ts.tv_nsec = d % 1000000000ull;
		return __wrap_nanosleep(&ts, nullptr);
	}
	return __wrap_nanosleep(req, rem);
}

} // extern "C"
