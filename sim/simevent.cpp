// simevent — discrete-event model of the nine libevent functions uSCXML's
// BasicDelayedEventQueue uses (DESIGN.md 3.3).  Not linked against libevent.
//
// Modelled behaviour (confirmed against libevent 2.1.12, see sim/conformance):
//  (a) event_base_loop() clears the break flag on entry, so a loopbreak issued
//      while no loop is running is forgotten;
//  (b) event_del()/event_free() from a thread other than the one running the
//      loop blocks while that event's callback is executing (no EV_FINALIZE);
//  (c) one EVLOOP_ONCE pass runs all timers that are due, in due order; ties are
//      unordered in libevent (coarse clock + unstable heap): insertion order in
//      deterministic-history mode, seeded order otherwise;
//  (d) loopbreak wakes a blocked loop;
//  (e) event_base_init_common_timeout() hands out at most 256 distinct durations per base and returns NULL
//      after that; a timer added with a NULL timeout never fires; a timer added with a common-timeout handle
//      fires after that duration.
// Freed events become tombstones for the rest of the run so that any later
// use is reported as use-after-free / double-free (with the real library this
// is undefined behaviour on freed heap memory).
#include "sim.h"

#include <event2/event.h>
#include <event2/thread.h>
#include <stdio.h>
#include <stdlib.h>
#include <string.h>

#include <algorithm>
#include <set>
#include <vector>

struct event {
	uint32_t magic;
	event_base* base;
	event_callback_fn cb;
	void* arg;
	bool pending;
	bool activeq;
	uint64_t due;
	uint64_t ins;
	uint64_t tie;
	bool freed;
};

struct event_base {
	uint32_t magic;
	bool brk;
	bool running;
	int loop_task;
	event* current;
	uint64_t ins_seq;
	std::vector<event*> timers; // pending, unordered; few entries
	std::vector<event*> active; // activated, callback not yet started (in order)
	std::vector<event*> all;    // every event ever created on this base (tombstones included)
	std::vector<timeval*> common; // common-timeout durations handed out (libevent: at most 256 per base)
	bool freed;
};

namespace usim {
namespace ev {
// counters read by the harness
long n_add_no_timeout = 0;
long n_add = 0, n_del = 0, n_free = 0, n_fired = 0, n_loop = 0, n_break = 0, n_break_forgotten = 0, n_del_blocked = 0, n_del_while_running = 0;
static std::vector<event_base*> g_bases;
static std::vector<event*> g_events;

void reset_counters() {
	n_add = n_del = n_free = n_fired = n_loop = n_break = n_break_forgotten = n_del_blocked = n_del_while_running = 0;
}
// free tombstones between runs (only when no simulated task is alive)
void collect() {
	for (event* e : g_events) delete e;
	g_events.clear();
	for (event_base* b : g_bases) delete b;
	g_bases.clear();
}
}
}

using namespace usim;

static const uint32_t EV_MAGIC = 0x51e7e7e1, BASE_MAGIC = 0xba5eba5e;

static void check_event(const event* ev, const char* fn) {
	if (!ev) verdict("simevent-null", std::string(fn) + " on NULL event");
	if (ev->magic != EV_MAGIC) verdict("simevent-garbage", std::string(fn) + " on something that is not an event");
	if (ev->freed) verdict("use-after-free", std::string(fn) + " on an event that was already freed with event_free()\n" + describe_tasks());
}

static event* earliest(event_base* b) {
	event* best = nullptr;
	for (event* e : b->timers)
		if (!best || e->due < best->due || (e->due == best->due && (e->tie < best->tie || (e->tie == best->tie && e->ins < best->ins)))) best = e;
	return best;
}

static void remove_pending(event* ev) {
	if (ev->pending) {
		auto& v = ev->base->timers;
		v.erase(std::find(v.begin(), v.end(), ev));
		ev->pending = false;
	}
	if (ev->activeq) { // activated but callback not started: libevent removes it from the active queue
		auto& v = ev->base->active;
		v.erase(std::find(v.begin(), v.end(), ev));
		ev->activeq = false;
	}
}

// blocks while ev's callback is running in another task (libevent: EVENT_DEL_AUTOBLOCK)
static void wait_not_running(event* ev, const char* fn) {
	event_base* b = ev->base;
	if (b->current == ev && b->loop_task != current_task()) {
		ev::n_del_blocked++;
		std::function<bool()> ready = [b, ev]() { return b->current != ev; };
		std::function<uint64_t()> dl = []() { return UINT64_MAX; };
		block_until(ready, dl, fn, ev);
	} else if (b->current == ev) {
		ev::n_del_while_running++;
	}
}

extern "C" {

int evthread_use_pthreads(void) {
	return 0;
}

struct event_base* event_base_new(void) {
	event_base* b = new event_base();
	b->magic = BASE_MAGIC;
	b->brk = false;
	b->running = false;
	b->loop_task = -1;
	b->current = nullptr;
	b->ins_seq = 0;
	b->freed = false;
	ev::g_bases.push_back(b);
	return b;
}

void event_base_free(struct event_base* b) {
	if (!b || b->magic != BASE_MAGIC) verdict("simevent-garbage", "event_base_free on garbage");
	if (b->freed) verdict("double-free", "event_base_free twice");
	if (b->running) verdict("use-after-free", "event_base_free while a task is inside event_base_loop\n" + describe_tasks());
	b->freed = true;
}

struct event* event_new(struct event_base* b, evutil_socket_t fd, short what, event_callback_fn cb, void* arg) {
	if (!b || b->magic != BASE_MAGIC) verdict("simevent-garbage", "event_new on garbage base");
	if (b->freed) verdict("use-after-free", "event_new on freed base");
	event* e = new event();
	e->magic = EV_MAGIC;
	e->base = b;
	e->cb = cb;
	e->arg = arg;
	e->pending = false;
	e->activeq = false;
	e->due = 0;
	e->ins = 0;
	e->tie = 0;
	e->freed = false;
	b->all.push_back(e);
	ev::g_events.push_back(e);
	return e;
}

void event_free(struct event* ev) {
	if (ev && ev->magic == EV_MAGIC && ev->freed)
		verdict("double-free", "event_free on an event that was already freed\n" + describe_tasks());
	check_event(ev, "event_free");
	if (usim::active() && usim::current_task() >= 0) {
		usim::yield("event_free");
		check_event(ev, "event_free");
		wait_not_running(ev, "event_free");
		check_event(ev, "event_free");
	}
	remove_pending(ev);
	ev->freed = true;
	ev::n_free++;
}

int event_add(struct event* ev, const struct timeval* tv) {
	check_event(ev, "event_add");
	if (ev->base->freed) verdict("use-after-free", "event_add on freed base");
	if (usim::active() && usim::current_task() >= 0) {
		usim::yield("event_add");
		check_event(ev, "event_add");
	}
	remove_pending(ev);
	if (!tv) {
		// libevent: an event added without a timeout waits for its I/O condition only; a pure timer never fires
		ev::n_add_no_timeout++;
		return 0;
	}
	uint64_t usec = (uint64_t)tv->tv_usec;
	if ((usec & 0xf0000000ull) == 0x50000000ull) usec &= 0x000fffffull;   // a common-timeout handle (see below)
	uint64_t d = (uint64_t)tv->tv_sec * 1000000000ull + usec * 1000ull;
	ev->due = usim::now_ns() + d;
	ev->ins = ++ev->base->ins_seq;
	ev->tie = usim::deterministic_mode() ? 0 : usim::rnd(1u << 20);
	ev->pending = true;
	ev->base->timers.push_back(ev);
	ev::n_add++;
	return 0;
}

// (e) libevent keeps at most 256 distinct "common timeout" durations per base; the handle is the duration with a magic
// number and the slot index in the upper bits of tv_usec; for the 257th distinct duration it warns and returns NULL
const struct timeval* event_base_init_common_timeout(struct event_base* b, const struct timeval* duration) {
	if (!b || b->magic != BASE_MAGIC) verdict("simevent-garbage", "event_base_init_common_timeout on garbage base");
	if (b->freed) verdict("use-after-free", "event_base_init_common_timeout on freed base");
	if (!duration) return nullptr;
	long sec = duration->tv_sec;
	long usec = duration->tv_usec;
	if ((usec & 0xf0000000l) == 0x50000000l) usec &= 0x000fffffl;
	if (usec >= 1000000) { sec += usec / 1000000; usec %= 1000000; }
	for (size_t i = 0; i < b->common.size(); i++) {
		if (b->common[i]->tv_sec == sec && (b->common[i]->tv_usec & 0x000fffffl) == usec) return b->common[i];
	}
	if (b->common.size() >= 256) {
		fprintf(stderr, "[warn] event_base_init_common_timeout: Too many common timeouts already in use; we only support 256 per event_base\n");
		return nullptr;
	}
	timeval* t = new timeval();
	t->tv_sec = sec;
	t->tv_usec = usec | 0x50000000l | ((long)b->common.size() << 20);
	b->common.push_back(t);
	return t;
}

int event_del(struct event* ev) {
	check_event(ev, "event_del");
	if (usim::active() && usim::current_task() >= 0) {
		usim::yield("event_del");
		check_event(ev, "event_del");
		wait_not_running(ev, "event_del");
		check_event(ev, "event_del");
	}
	remove_pending(ev);
	ev::n_del++;
	return 0;
}

int event_base_loopbreak(struct event_base* b) {
	if (!b || b->magic != BASE_MAGIC) verdict("simevent-garbage", "event_base_loopbreak on garbage");
	if (b->freed) verdict("use-after-free", "event_base_loopbreak on freed base");
	if (usim::active() && usim::current_task() >= 0) usim::yield("loopbreak");
	b->brk = true;
	ev::n_break++;
	return 0;
}

int event_base_loop(struct event_base* b, int flags) {
	if (!b || b->magic != BASE_MAGIC) verdict("simevent-garbage", "event_base_loop on garbage");
	if (b->freed) verdict("use-after-free", "event_base_loop on freed base");
	if (!(usim::active() && usim::current_task() >= 0)) {
		fprintf(stderr, "simevent: event_base_loop outside the simulator\n");
		abort();
	}
	if (b->running) verdict("simevent-reentrant", "event_base_loop entered twice");
	usim::yield("loop_enter");
	if (b->freed) verdict("use-after-free", "event_base_loop on freed base");
	if (b->brk) ev::n_break_forgotten++;
	b->brk = false; // (a)
	b->running = true;
	b->loop_task = usim::current_task();
	ev::n_loop++;
	int ran = 0;
	for (;;) {
		if (b->brk) break; // checked at the top of libevent's loop (d)
		{
			std::function<bool()> ready = [b]() {
				if (b->brk || !b->active.empty()) return true;
				event* e = earliest(b);
				return e && e->due <= usim::now_ns();
			};
			std::function<uint64_t()> dl = [b]() -> uint64_t {
				event* e = earliest(b);
				return e ? e->due : UINT64_MAX;
			};
			block_until(ready, dl, "event_base_loop", b);
		}
		// (c) timeout_process(): every due timer becomes active, in due order
		uint64_t nowv = usim::now_ns();
		for (;;) {
			event* e = earliest(b);
			if (!e || e->due > nowv) break;
			auto& v = b->timers;
			v.erase(std::find(v.begin(), v.end(), e));
			e->pending = false;
			e->activeq = true;
			b->active.push_back(e);
		}
		bool broke = false;
		while (!b->active.empty()) {
			event* e = b->active.front();
			b->active.erase(b->active.begin());
			e->activeq = false;
			b->current = e;
			ev::n_fired++;
			ran++;
			e->cb(-1, EV_TIMEOUT, e->arg);
			b->current = nullptr;
			usim::yield("timer_done"); // base lock is contended here
			if (b->brk) { // libevent checks event_break after each callback
				broke = true;
				break;
			}
		}
		if (broke || ran) break; // EVLOOP_ONCE
	}
	b->running = false;
	b->loop_task = -1;
	return ran ? 0 : 1;
}

} // extern "C"
