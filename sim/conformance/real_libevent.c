/* Conformance scripts (DESIGN.md section 2 / 9): the four behaviours of libevent that simevent models are
 * checked here against the REAL library (static libevent 2.1 of the sandbox), with real threads and time.
 *   (a) a loopbreak issued while no loop runs is forgotten by the next event_base_loop()
 *   (b) event_del() from another thread blocks while that event's callback is running (no EV_FINALIZE)
 *   (c) one EVLOOP_ONCE pass runs all due timers, in due order (timers due within the clock granularity of a few
 *       ms tie, and libevent's heap is not stable: BCA / ACB were observed for equal delays, so ties are unordered)
 *   (d) loopbreak wakes a blocked loop
 *   (e) at most 256 common-timeout durations per base (NULL afterwards); a timer added with NULL never fires
 * The same scripts run against simevent inside the simulator (usim --simevent-selftest). */
#include <event2/event.h>
#include <event2/thread.h>
#include <pthread.h>
#include <stdio.h>
#include <string.h>
#include <sys/time.h>
#include <unistd.h>

static double now_ms(void) {
	struct timeval tv;
	gettimeofday(&tv, NULL);
	return tv.tv_sec * 1000.0 + tv.tv_usec / 1000.0;
}

static int fails = 0;
#define CHECK(c, msg) do { if (!(c)) { printf("FAIL %s\n", msg); fails++; } else printf("ok   %s\n", msg); } while (0)

static char order[16];
static void cb_order(evutil_socket_t fd, short what, void* arg) { strcat(order, (const char*)arg); }

static volatile int in_cb = 0, cb_done = 0;
static void cb_slow(evutil_socket_t fd, short what, void* arg) { in_cb = 1; usleep(300000); cb_done = 1; }

static void* loop_once(void* b) { event_base_loop((struct event_base*)b, EVLOOP_ONCE); return NULL; }

int main(void) {
	evthread_use_pthreads();
	struct timeval tv;
	/* (a) */
	{
		struct event_base* b = event_base_new();
		order[0] = 0;
		struct event* e = event_new(b, -1, 0, cb_order, (void*)"A");
		tv.tv_sec = 0; tv.tv_usec = 60000;
		event_add(e, &tv);
		event_base_loopbreak(b);
		double t0 = now_ms();
		event_base_loop(b, EVLOOP_ONCE);
		double dt = now_ms() - t0;
		CHECK(strcmp(order, "A") == 0 && dt > 40, "(a) loopbreak before the loop is entered is forgotten: the loop blocked and ran the timer");
		event_free(e); event_base_free(b);
	}
	/* (b) */
	{
		struct event_base* b = event_base_new();
		struct event* e = event_new(b, -1, 0, cb_slow, NULL);
		tv.tv_sec = 0; tv.tv_usec = 1000;
		event_add(e, &tv);
		pthread_t th;
		pthread_create(&th, NULL, loop_once, b);
		while (!in_cb) usleep(1000);
		event_del(e);
		CHECK(cb_done == 1, "(b) event_del from another thread returned only after the running callback finished");
		pthread_join(th, NULL);
		event_free(e); event_base_free(b);
	}
	/* (c) */
	{
		struct event_base* b = event_base_new();
		order[0] = 0;
		struct event* a = event_new(b, -1, 0, cb_order, (void*)"A");
		struct event* bb = event_new(b, -1, 0, cb_order, (void*)"B");
		struct event* c = event_new(b, -1, 0, cb_order, (void*)"C");
		tv.tv_sec = 0; tv.tv_usec = 10000; event_add(a, &tv);
		tv.tv_usec = 5000; event_add(bb, &tv);
		tv.tv_usec = 20000; event_add(c, &tv);
		usleep(40000);
		event_base_loop(b, EVLOOP_ONCE);
		printf("     order observed: %s\n", order); CHECK(strcmp(order, "BAC") == 0, "(c) one EVLOOP_ONCE pass ran all three due timers in due order (BAC for 10, 5, 20 ms)");
		event_free(a); event_free(bb); event_free(c); event_base_free(b);
	}
	/* (d) */
	{
		struct event_base* b = event_base_new();
		order[0] = 0;
		struct event* e = event_new(b, -1, 0, cb_order, (void*)"X");
		tv.tv_sec = 10; tv.tv_usec = 0;
		event_add(e, &tv);
		pthread_t th;
		pthread_create(&th, NULL, loop_once, b);
		usleep(50000);
		double t0 = now_ms();
		event_base_loopbreak(b);
		pthread_join(th, NULL);
		CHECK(now_ms() - t0 < 1000 && order[0] == 0, "(d) loopbreak woke the blocked loop without running the far timer");
		event_free(e); event_base_free(b);
	}
	/* (e) */
	{
		struct event_base* b = event_base_new();
		const struct timeval* h = NULL;
		int n_ok = 0, i;
		for (i = 1; i <= 256; i++) {
			tv.tv_sec = 0; tv.tv_usec = i * 1000;
			h = event_base_init_common_timeout(b, &tv);
			if (h) n_ok++;
		}
		tv.tv_sec = 0; tv.tv_usec = 5000;
		const struct timeval* again = event_base_init_common_timeout(b, &tv);
		tv.tv_sec = 0; tv.tv_usec = 300000;
		const struct timeval* over = event_base_init_common_timeout(b, &tv);
		CHECK(n_ok == 256 && again != NULL && over == NULL, "(e) 256 distinct common timeouts per base, a known duration is found again, the 257th distinct one yields NULL");
		order[0] = 0;
		struct event* never = event_new(b, -1, 0, cb_order, (void*)"N");
		struct event* soon = event_new(b, -1, 0, cb_order, (void*)"S");
		event_add(never, over);   /* NULL timeout: a pure timer that never fires */
		event_add(soon, again);   /* 5 ms through the common-timeout handle */
		usleep(40000);
		event_base_loop(b, EVLOOP_NONBLOCK);
		CHECK(strcmp(order, "S") == 0, "(e) a timer added with a NULL timeout did not fire, the one added with a common-timeout handle did");
		event_free(never); event_free(soon); event_base_free(b);
	}
	printf("%s\n", fails ? "CONFORMANCE FAILED" : "CONFORMANCE OK");
	return fails ? 1 : 0;
}
