// usim — deterministic scheduler kernel (DESIGN.md section 3).
//
// Real threads, one baton.  Every thread created while the simulator is
// active becomes a task; exactly one task runs at any moment; a task gives
// the baton back only inside an intercepted call (pthread_* / clock / simevent
// wrappers, usim::yield, usim::sleep_ms).  At each such decision point the
// scheduler picks the next task from the runnable set (ordered by task id,
// never by pointer) with a seeded policy.  Time is simulated.
#pragma once
#include <cstdint>
#include <functional>
#include <string>
#include <vector>

namespace usim {

enum Policy { POL_RANDOM = 0, POL_STICKY = 1, POL_PCT = 2, POL_NONPREEMPT = 3 };

struct Config {
	uint64_t seed = 1;           // scheduler sub-stream
	int policy = POL_RANDOM;
	double sticky_p = 0.8;       // POL_STICKY: probability of keeping the current task
	int pct_d = 2;               // POL_PCT: number of priority change points
	int pct_horizon = 400;       // POL_PCT: change points are drawn in [0,horizon)
	double time_adv_p = 0.0;     // adversarial time advance probability per decision
	double spurious_p = 0.0;     // spurious condition wake-up probability per decision
	double stall_p = 0.0;        // probability per decision that a task is starved for a while
	int stall_len = 20;
	int64_t max_decisions = 200000;
	uint64_t stuck_jump_ns = 100ull * 24 * 3600 * 1000000000ull; // see DESIGN 3.1
	std::vector<int> decisions;  // explicit replay: chosen task id per decision (fallback: policy)
	uint64_t wall_offset_ns = 1700000000ull * 1000000000ull; // CLOCK_REALTIME at run start
};

struct Stats {
	int64_t decisions = 0;
	int64_t switches = 0;
	int64_t time_jumps = 0;
	int64_t adv_time = 0;
	int64_t spurious = 0;
	int64_t stalls = 0;
	int64_t tasks = 0;
	int64_t clock_skews = 0;
	uint64_t sched_hash = 1469598103934665603ull; // FNV over (task,kind) at decision points
	uint64_t end_ns = 0;
	int64_t replay_diverged = 0;
};

// life cycle -----------------------------------------------------------------
void begin(const Config& cfg);     // calling thread becomes task 0
void end();                        // every other task must have finished
bool active();
const Stats& stats();
const std::vector<int>& decision_log();

// calls for harness code running inside a task ------------------------------
int current_task();                // -1 outside
void name_task(const char* name);  // cosmetic, for wait-for graphs
const char* task_name(int id);
void yield(const char* why);       // pure decision point
void sleep_ms(uint64_t ms);        // simulated sleep
bool others_quiescent(uint64_t horizon_ns = 0); // no other task is runnable now (nor wakes by itself within the horizon)
void settle();                     // block until no other task is runnable at the current time (quiescence)
uint64_t now_ns();                 // monotonic simulated time
uint64_t wall_ns();                // CLOCK_REALTIME as seen by the subject
void skew_wall(int64_t delta_ns);  // fault: wall-clock jump
uint64_t next_seq();               // global event sequence number
bool deterministic_mode();         // POL_NONPREEMPT: deterministic-history mode
uint64_t rnd(uint64_t n);          // harness randomness from the sched stream (rarely needed)

// "API call in progress" marker used by the stuck rule (DESIGN 3.1): while the
// depth is > 0 for any task, a clock jump beyond stuck_jump_ns is a verdict.
void api_enter(const char* what);
void api_leave();

// generic blocking, used by simevent and the pthread wrappers ----------------
// Blocks the current task until ready() is true.  deadline() returns the
// simulated monotonic time at which ready() may become true by itself
// (UINT64_MAX: never).  what/obj only describe the wait in the wait-for graph.
void block_until(const std::function<bool()>& ready,
                 const std::function<uint64_t()>& deadline,
                 const char* what, const void* obj);

// verdicts --------------------------------------------------------------------
// Called by the kernel (deadlock, stuck, no-progress) and by simevent
// (use-after-free, double-free).  The handler is installed by the harness; it
// must not return (it reports and _exit()s, parked threads are left behind).
typedef void (*VerdictHandler)(const char* rule, const std::string& detail);
void set_verdict_handler(VerdictHandler h);
void verdict(const char* rule, const std::string& detail);
std::string describe_tasks();      // wait-for graph, task names and states

}
