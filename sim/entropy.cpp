// Entropy seam (DESIGN.md section 2).  uSCXML draws session ids, auto send /
// invoke ids and event UUIDs from one process-global generator,
// uscxml::uuidGen (src/uscxml/util/UUID.cpp; boost 1.61 bundled in
// /repo/contrib: a mt19937 seeded from /dev/urandom, clock, pid at static
// initialisation).  The global has external linkage, so the simulator re-seats
// it on a generator it owns at the start of every run; no hook needed.
#include <boost/uuid/random_generator.hpp>
#include <boost/random/mersenne_twister.hpp>
#include <stdint.h>

namespace uscxml {
extern boost::uuids::random_generator uuidGen;
}

static boost::mt19937 g_rng;

extern "C" void usim_entropy_seed(uint64_t seed) {
	g_rng.seed((uint32_t)(seed ^ (seed >> 32)));
	uscxml::uuidGen = boost::uuids::random_generator(&g_rng);
}
